"""C13 - copies are independent, links share what they advertise, pickles round-trip."""
from __future__ import annotations

import pickle

import numpy as np
import thermosteam as tmo
from thermosteam import equilibrium as eq
from vlib import chem, streams as vs
from vlib.runner import Violation, innermost_frame

PROPERTY = 'C13'
RULE = ('(matrix) Hypothesis draws an operation (copy [optionally onto another package], copy_like, '
        'copy_thermal_condition, copy_phase, copy_flow without removal), a source kind (Stream | MultiStream with one '
        'phase | MultiStream with 2-4 phases over s/l/g/S/L), a target kind, same or another property package (seven '
        'packages over permuted subsets of 8 chemicals; when the target package lacks a chemical the source flow of it '
        'is zero), flows 0 or 10**u (u in [-3,3]) incl. empty rows, T in [250,500] K, P in [1e4,1e7] Pa. Oracle: dense '
        'CAS-keyed snapshots taken with NumPy before the call; after the call the target shows the source rows under '
        'the same phase label (or the case twin when the exact label is not among the target phases), the same T and P, '
        'the source is unchanged; then every flow, T, P and the phase of one side is overwritten (item writes, slice '
        'writes or empty()) and the other side must be unchanged, in both directions. '
        'After copy / copy_like / copy_flow the flows of source AND target are also read by NAME (every single ID, a '
        'drawn tuple of IDs, with phase and summed over phases) in both lookup orders and compared with the raw rows '
        'through the check\'s own name->CAS table. '
        'Sources also include a phase sub-stream (view) of a MultiStream; target phase sets are drawn equal to, as '
        'case twins of, or independently of the source\'s. '
        '(own_view) a MultiStream copies (copy_like, copy_flow, copy_thermal_condition) from one of its own phase '
        'sub-streams, which shares a row of the destination: afterwards the stream holds exactly what the sub-stream '
        'held, other rows empty, T/P/phases unchanged, the sub-stream still a live view. '
        '(proxy) proxy / flow_proxy of every kind (constructor-built and converted MultiStreams), identity of the '
        'shared containers, write-through in both directions, phase sub-streams handed out by the original before '
        'the proxy exists / by both afterwards / by the proxy only, then unlink of either member, after which the '
        'sub-streams of each must follow (and write) their own stream. '
        '(substream) for multi-phase streams the phase sub-streams ms[phase] (handed out before or after the '
        'operation) must show and write the stream\'s row, T and P after link_with (8 flag subsets), unlink, '
        'copy_like, copy, flow_proxy. '
        '(link_views) one link_with (8 flag subsets) between two streams of one kind (single-phase streams in '
        'independently drawn phases), mass/vol views read before and after in both orders: exactly the selected parts '
        'are shared, and the mass and volumetric views of BOTH members equal those of a fresh stream at the member\'s '
        'own flows, phase, T, P, also after a later change of the other stream and after unlink. (proxy) also reads '
        'H, S, C, rho, F_vol of one separated stream, changes and reads the other, re-reads the first. '
        '(links) histories of 1-30 steps over 2-7 streams of one kind and package: proxy, flow_proxy, copy, link_with '
        '(all 8 flag subsets), unlink, copy_like, copy_thermal_condition, copy_phase, flow/T/P/phase writes; reference '
        'model = sharing cells (flow cell, TP cell, phase cell) with values; after every step every stream shows the '
        'value of its cells and `is`-identity of imol.data / thermal_condition / phase container holds exactly for '
        'streams in the same cell; a final sweep writes a unique value through every cell. '
        '(pickle) Stream/MultiStream built through the constructor with price and characterization factors, '
        'Reaction/ParallelReaction/SeriesReaction/ReactionSystem/ReactionItem (mol/wt, with and without phases), '
        'Chemical and Thermo/IdealThermo built FRESH inside the case from drawn arguments (database chemical x '
        'phase_ref s/l/g/default, locked phase, user-defined; N_solutes None/0..3; Gamma/PCF/mixture options; 1-5 '
        'chemicals per package), compared field by field directly and inside the unpickled package, incl. '
        'heavy-solute data and a V=0.3 flash: '
        'pickle.loads(pickle.dumps(o, protocol 2..5)) shows equal observable state and equal behaviour at probe '
        'points. Non-trivial: non-empty source (matrix), a history with >=1 structural operation and >=1 write, a '
        'pickle of a non-empty object. Distinct by operation, kinds, phase labels, packages, zero pattern, flags / '
        'operation-name sequence.')
ASSUMPTIONS = ['the target package defines every chemical that has a non-zero flow in the source',
               'copy_phase is only applied to single-phase targets; a MultiStream source may raise the documented ValueError',
               'MultiStream.copy_flow requires identical chemicals and is applied between MultiStreams only on equal phase tuples (callers\' precondition)',
               'in histories all streams have one package and one kind (link_with requires it); kind changes of shared streams are not generated (Appendix A)',
               'link_with(flow/phase) and unlink on a member of a proxy alias group (streams sharing one indexer object) are not generated in histories: '
               'what the other alias should then share is not stated; the unlink case is covered by the stateless proxy check',
               'pickle domain: objects as constructed (no groups/aliases added afterwards); user models given as lambdas are not picklable by design and not generated',
               'streams are created with ID=None; the ID is compared after a round trip in a separate property function',
               'N_solutes has no constructor argument; it is set through its public attribute right after construction and counted as construction state',
               'volumetric views are read after a one-kelvin re-evaluation when a phase label was written earlier in the history, so that the known '
               'finding C11-F1 (vol keeps the previous phase\'s molar volumes until T or P changes) is not re-reported here',
               'views and derived properties are compared with those of a fresh stream at the same observable state (value or exception type)']
REQUIRED_CELLS = {'quick': ['m:copy_like:tgt=S,src=S', 'm:copy_like:tgt=S,src=M1', 'm:copy_like:tgt=S,src=M',
                            'm:copy_like:tgt=M1,src=S', 'm:copy_like:tgt=M,src=S', 'm:copy_like:tgt=M,src=M',
                            'm:copy_like:tgt=M,src=M1', 'm:copy_like:tgt=M1,src=M', 'm:copy_like:tgt=M1,src=M1',
                            'm:ph=same', 'm:ph=sub', 'm:ph=twin', 'm:ph=absent', 'm:xpkg=1', 'm:xpkg=0',
                            'o:copy_like:tgt=M', 'o:copy_like:tgt=M1', 'o:copy_flow:tgt=M',
                            'm:op=copy', 'm:op=copy_thermal_condition', 'm:op=copy_phase', 'm:op=copy_flow',
                            'l:op=proxy', 'l:op=flow_proxy', 'l:op=unlink', 'l:op=copy',
                            'l:link=000', 'l:link=001', 'l:link=010', 'l:link=011', 'l:link=100', 'l:link=101',
                            'l:link=110', 'l:link=111', 'l:kind=S', 'l:kind=M',
                            'x:proxy:src=S,via=ctor', 'x:proxy:src=M,via=conv', 'x:proxy:src=M,via=ctor',
                            'x:flow_proxy:src=S,via=ctor', 'x:flow_proxy:src=M,via=ctor', 'x:proxy:unlink_proxy',
                            'x:proxy:unlink_original', 'v:link:pre=1', 'v:unlink:pre=1', 'v:link:pre=0',
                            'm:copy_like:tgt=S,src=V', 'm:copy_like:tgt=M,src=V', 'p:stream-id:S', 'p:stream-id:M',
                            'p:stream:S', 'p:stream:M', 'p:rxn:Reaction', 'p:rxn:ParallelReaction',
                            'p:rxn:SeriesReaction', 'p:rxn:ReactionSystem', 'p:chem:ref=s', 'p:chem:ref=l',
                            'p:chem:ref=g', 'p:chem:locked', 'p:chem:user', 'p:chem:N_solutes=set', 'p:thermo:Thermo',
                            'p:thermo:IdealThermo', 'p:thermo:locked', 'p:thermo:N_solutes=set', 'p:thermo:flash',
                            'k:S,different-phase,flags=101', 'l:op=read_views'],
                  'thorough': []}

ALL = list(vs.ALL_PHASES)
KINDS = ['S', 'M1', 'M']
LOCK_NAMES = ('Water', 'Ethanol', 'N2', 'Glucose', 'LacticAcid')
LOCKED = {'N2': 'g', 'Glucose': 's', 'LacticAcid': 'l'}


def twin(p):
    return p.lower() if p.isupper() else p.upper()


def thermo_for(pkg):
    if pkg == 'LOCK':
        return chem.thermo_of(LOCK_NAMES, locked=LOCKED)
    return chem.package(pkg)


def names_of(pkg):
    return LOCK_NAMES if pkg == 'LOCK' else chem.PACKAGES[pkg]


# ---------------------------------------------------------------------------
# drawing and building streams
# ---------------------------------------------------------------------------
def draw_stream(ch, tag, kind3, pkg, phases=None, T=(250., 500.), P=(1e4, 1e7)):
    n = len(names_of(pkg))
    if phases is None:
        if kind3 in ('S', 'M1'):
            phases = [ch.choice(f'{tag}.phase', ALL)]
        else:
            phases = sorted(ch.subset(f'{tag}.phases', ALL, min_size=2, max_size=4))
    rows = []
    for p in phases:
        if ch.int(f'{tag}.{p}.empty', 0, 3) == 0:
            rows.append([0.0] * n)
        else:
            rows.append(ch.flows(f'{tag}.{p}.flow', n))
    return {'kind': 'S' if kind3 == 'S' else 'M', 'kind3': kind3, 'pkg': pkg, 'phases': list(phases), 'flows': rows,
            'T': ch.float(f'{tag}.T', *T), 'P': ch.float(f'{tag}.P', *P)}


def build(spec, via='ctor'):
    th = thermo_for(spec['pkg'])
    if spec['kind'] == 'M' and via == 'conv':
        # a MultiStream obtained by converting a Stream (the documented `s.phases = ...` route)
        s = tmo.Stream(None, T=spec['T'], P=spec['P'], phase=spec['phases'][0], thermo=th)
        s.phases = tuple(spec['phases'])
        for p, row in zip(spec['phases'], spec['flows']):
            d = s.imol.data.rows[s.imol.get_phase_index(p)].dct
            for i, v in enumerate(row):
                if v: d[i] = float(v)
        return s
    sp = dict(spec); sp['pkg'] = th
    return vs.build(sp)


def zero_pattern(spec):
    return [[1 if v else 0 for v in row] for row in spec['flows']]


def skey(spec):
    return [spec['kind3'], spec['pkg'], spec['phases'], zero_pattern(spec)]


def _guarded(fn):
    def reader(s, *a):
        try:
            return fn(s, *a)
        except Exception as e:
            raise Violation(f'{PROPERTY}|observe|snapshot|exc:{type(e).__name__}@{innermost_frame(e)}',
                            f'reading the flows of a {type(s).__name__} raised {type(e).__name__}: {str(e)[:200]}')
    return reader


class _Readers:
    """vlib.streams readers; a stream that can no longer be read is a violation, not a harness error."""
    ALL_PHASES = vs.ALL_PHASES
    phases_of = staticmethod(vs.phases_of)
    dense = staticmethod(_guarded(vs.dense))
    by_phase = staticmethod(_guarded(vs.by_phase))
    build = staticmethod(vs.build)


def snap(s):
    """Observable state: class name, phase labels, per-phase CAS-keyed flows, T, P (plain Python/NumPy)."""
    try:
        return {'cls': type(s).__name__, 'phases': tuple(vs.phases_of(s)), 'rows': _Readers.by_phase(s),
                'T': float(s.T), 'P': float(s.P)}
    except Exception as e:
        # the stream can no longer even be read (e.g. an entry written beyond the number of chemicals)
        raise Violation(f'{PROPERTY}|observe|snapshot|exc:{type(e).__name__}@{innermost_frame(e)}',
                        f'reading phases/flows/T/P of a {type(s).__name__} raised {type(e).__name__}: {str(e)[:200]}')


def nonzero_rows(rows):
    out = {}
    for p, row in rows.items():
        nz = {c: v for c, v in row.items() if v}
        if nz: out[p] = nz
    return out


def phase_relation(src_phases, tgt_phases):
    ss, ts = set(src_phases), set(tgt_phases)
    if ss == ts: return 'same'
    if ss <= ts: return 'sub'
    if all(p in ts or twin(p) in ts for p in ss): return 'twin'
    return 'absent'


def overwrite(s, how, salt):
    """Overwrite every observable of ``s``: all flows, T, P and (single-phase) the phase label."""
    data = s.imol.data
    if how == 'empty':
        s.empty()
    elif how == 'slice':
        a = _Readers.dense(s)
        new = a * 0.5 + salt
        if data.ndim == 1: data[:] = new[0]
        else: data[:] = new
    else:
        IDs = s.chemicals.IDs
        if data.ndim == 1:
            for i, ID in enumerate(IDs): s.imol[ID] = s.imol[ID] * 0.5 + salt + i
        else:
            for p in s.phases:
                for i, ID in enumerate(IDs): s.imol[p, ID] = s.imol[p, ID] * 0.5 + salt + i
    s.T = s.T + 7.5 + salt
    s.P = s.P * 1.25 + salt
    if not isinstance(s, tmo.MultiStream):
        s.phase = ALL[(ALL.index(s.phase) + 1 + int(salt)) % len(ALL)]


PROP_NAMES = ('H', 'S', 'C', 'rho', 'F_vol')


def read_props(s):
    """Derived thermodynamic properties a stream reports (value or the exception type)."""
    out = {}
    for n in PROP_NAMES:
        try: out[n] = float(getattr(s, n))
        except Exception as e: out[n] = 'exc:' + type(e).__name__
    return out


def fresh_like(state, th):
    """A new, unshared stream at the observable state ``state`` (a snap() dict) on package ``th``."""
    cas = list(th.chemicals.CASs)
    phases = list(state['phases'])
    rows = [[float(state['rows'][p].get(c, 0.0)) for c in cas] for p in phases]
    if state['cls'] == 'Stream':
        return tmo.Stream(None, flow=rows[0], phase=phases[0], T=state['T'], P=state['P'], thermo=th)
    return tmo.MultiStream(None, flow=rows, phases=tuple(phases), T=state['T'], P=state['P'], thermo=th)


def close_value(a, b, rtol=1e-9):
    if isinstance(a, str) or isinstance(b, str): return a == b
    if a != a or b != b: return a != a and b != b
    return a == b or abs(a - b) <= rtol * max(abs(a), abs(b))


def props_diff(got, want):
    return [f'{k}: {got[k]!r} want {want[k]!r}' for k in want if not close_value(got[k], want[k])]


def read_views(s):
    """Mass and volumetric flow views of a stream as dense arrays (or the exception type)."""
    out = {}
    multi = isinstance(s, tmo.MultiStream)
    for n in ('mass', 'vol'):
        try:
            v = getattr(s, 'i' + n).data if multi else getattr(s, n)
            out[n] = np.asarray(v.to_array(), float)
        except Exception as e:
            out[n] = 'exc:' + type(e).__name__
    return out


def views_diff(got, want, rtol=1e-12):
    bad = []
    for k in want:
        g, w = got[k], want[k]
        if isinstance(g, str) or isinstance(w, str):
            if not (isinstance(g, str) and isinstance(w, str) and g == w): bad.append(f'{k}: {g} want {w}')
        elif g.shape != w.shape or not np.allclose(g, w, rtol=rtol, atol=0.0, equal_nan=True):
            bad.append(f'{k}: {g.tolist()} want {w.tolist()}')
    return bad


def expect_rows(src_rows, tgt_phases_after):
    """Rows the target must show after copying ``src_rows`` given its phase labels (twin rule)."""
    want = {}
    missing = []
    for p, row in nonzero_rows(src_rows).items():
        if p in tgt_phases_after: q = p
        elif twin(p) in tgt_phases_after: q = twin(p)
        else:
            missing.append(p); continue
        d = want.setdefault(q, {})
        for c, v in row.items(): d[c] = d.get(c, 0.0) + v
    return want, missing


def rows_equal(got, want, merged=False):
    got = nonzero_rows(got)
    if set(got) != set(want):
        return False, f'non-empty phases {sorted(got)} want {sorted(want)}'
    for p in want:
        g, w = got[p], want[p]
        if set(g) != set(w):
            return False, f'phase {p}: chemicals {sorted(g)} want {sorted(w)}'
        for c in w:
            if g[c] != w[c] and not (merged and abs(g[c] - w[c]) <= 1e-12 * max(1.0, abs(w[c]))):
                return False, f'phase {p} {c}: {g[c]!r} want {w[c]!r}'
    return True, ''


# ---------------------------------------------------------------------------
# (1) stateless matrix
# ---------------------------------------------------------------------------
def draw_named(ch, tag, pkg):
    """Which chemicals are read back by name: a tuple of IDs in drawn order (single IDs are all read)."""
    names = list(names_of(pkg))
    return ch.subset(f'{tag}.ids', names, min_size=1, max_size=min(4, len(names)))


def named_reads(ctx, x, pkg, ids, site, region, who):
    """Flows read BY NAME (single ID, tuple of IDs, with and without phase) equal the raw rows of the same stream.

    The name -> CAS table is the check's own (vlib.chem.PACKAGES order against the package's CAS list)."""
    th = thermo_for(pkg)
    cas_of = dict(zip(names_of(pkg), th.chemicals.CASs))
    st = snap(x)
    multi = isinstance(x, tmo.MultiStream)
    def bad(key, got, want):
        ctx.fail(f'{site}|{region}|named-read-mismatch:{who}', f'{who}.imol[{key!r}] = {got!r}, raw data say {want!r}')
    for q in st['phases']:
        row = st['rows'][q]
        for ID in names_of(pkg):
            key = (q, ID) if multi else ID
            got = ctx.call(site + '.named', x.imol.__getitem__, key, region=region)
            if float(got) != row[cas_of[ID]]: bad(key, got, row[cas_of[ID]])
        key = (q, tuple(ids)) if multi else tuple(ids)
        got = np.asarray(ctx.call(site + '.named', x.imol.__getitem__, key, region=region), float).tolist()
        want = [row[cas_of[ID]] for ID in ids]
        if got != want: bad(key, got, want)
    if multi:
        for ID in ids:
            got = float(ctx.call(site + '.named', x.imol.__getitem__, ID, region=region))
            want = sum(st['rows'][q][cas_of[ID]] for q in st['phases'])
            if abs(got - want) > 1e-12 * max(1.0, abs(want)): bad(ID, got, want)


SRC_KINDS = ['S', 'S', 'M1', 'M1', 'M', 'M', 'V']     # V: a phase sub-stream (view) of a MultiStream


def draw_source(ch, sk, spkg):
    if sk == 'V':
        parent = draw_stream(ch, 'src', 'M', spkg)
        return parent, ch.choice('src.view', list(parent['phases']))
    return draw_stream(ch, 'src', sk, spkg), None


def view_spec(pspec, view):
    if view is None: return pspec
    return {'kind': 'S', 'kind3': 'V', 'pkg': pspec['pkg'], 'phases': [view],
            'flows': [pspec['flows'][pspec['phases'].index(view)]], 'T': pspec['T'], 'P': pspec['P']}


MATRIX_OPS = ['copy', 'copy_like', 'copy_like', 'copy_like', 'copy_like', 'copy_thermal_condition', 'copy_phase',
              'copy_flow']


def prop_matrix(ch, ctx):
    op = ch.choice('op', MATRIX_OPS)
    sk = ch.choice('src.kind', SRC_KINDS)
    xpkg = ch.bool('xpkg')
    spkg = ch.choice('src.pkg', list(chem.PACKAGES))
    how = ch.choice('overwrite', ['item', 'slice', 'empty'])
    ctx.cell('m:op=' + op); ctx.cell(f'm:xpkg={int(xpkg)}')
    if op == 'copy':
        return _matrix_copy(ch, ctx, sk, xpkg, spkg, how)
    tk = ch.choice('tgt.kind', KINDS)
    if op == 'copy_phase':
        tk = 'S'
        if sk != 'S' and ch.int('copy_phase.multi_src', 0, 3): sk = 'S'   # MultiStream sources are rejected by design
    if op == 'copy_flow' and tk != 'S': xpkg = False      # documented: same chemicals
    tpkg = ch.choice('tgt.pkg', [p for p in chem.PACKAGES if p != spkg]) if xpkg else spkg
    pspec, view = draw_source(ch, sk, spkg)
    src = view_spec(pspec, view)
    # phases of the target: equal to the source's when asked and possible, otherwise independent
    tph = None
    mode = ch.choice('tgt.phase_mode', ['same', 'twins', 'indep', 'indep'])
    if mode != 'indep':
        base = list(src['phases'])
        if mode == 'twins':
            base = [twin(p) if (p != 'g' and ch.bool(f'tgt.flip.{p}')) else p for p in base]
        base = sorted(set(base))
        if tk in ('S', 'M1'):
            tph = [base[ch.int('tgt.pick', 0, len(base) - 1)]] if len(base) > 1 else base
        else:
            if len(base) < 2:
                base = sorted(base + ch.subset('tgt.extra', [q for q in ALL if q not in base], min_size=1, max_size=2))
            tph = base
    if op == 'copy_flow' and tk != 'S' and sk in ('M', 'M1'):
        tph = list(src['phases']); tk = sk   # positional rows: equal phase tuples
    tgt = draw_stream(ch, 'tgt', tk, tpkg, phases=tph)
    if op == 'copy_flow' and tk != 'S' and sk in ('S', 'V'):
        p = src['phases'][0]
        if p not in tgt['phases'] and twin(p) not in tgt['phases']:
            tgt['phases'] = sorted(tgt['phases'] + [p])
            tgt['flows'].insert(tgt['phases'].index(p), [0.0] * len(names_of(tpkg)))
            if tk == 'M1': tk = tgt['kind3'] = 'M'
    # precondition: the target package defines every chemical flowing in the source
    tnames = set(names_of(tpkg))
    sub = False
    for j, nme in enumerate(names_of(spkg)):
        if nme not in tnames:
            sub = True
            for row in pspec['flows']: row[j] = 0.0
    src = view_spec(pspec, view)
    # Sparse flow data has a hidden degree of freedom: the insertion order of the stored entries.  Optionally the
    # source is stored in a drawn order, and a prelude copy of the same flows stored in ANOTHER order goes first
    # into a second destination on the same package (cross-package lookups are remembered per destination package).
    prelude = xpkg and op in ('copy_like', 'copy_flow') and ch.bool('prelude')
    if prelude:
        n_src = len(names_of(spkg))
        pspec['order'] = ch.permutation('src.order', n_src)
        order2 = ch.permutation('prelude.order', n_src)
    owner = build(pspec); t = build(tgt)
    s = owner[view] if view else owner      # a phase sub-stream of a MultiStream is a stream, too
    rel = phase_relation(src['phases'], tgt['phases'])      # are the source's phase labels available in the target?
    rrel = phase_relation(tgt['phases'], src['phases'])     # are the receiver's own labels among the source's?
    region = f'tgt={tk},src={sk},xpkg={int(xpkg)},ph={rel},rph={rrel}'
    ctx.cell(f'm:{op}:tgt={tk},src={sk}'); ctx.cell('m:ph=' + rel)
    if xpkg and sub: ctx.cell('m:tgt-lacks-chemicals')
    s0 = snap(s); t0 = snap(t)
    nonempty = bool(nonzero_rows(s0['rows']))
    site = 'matrix.' + op
    if prelude:
        ctx.cell('m:prelude'); 
        if pspec['order'] != order2 and nonempty: ctx.cell('m:prelude:reordered')
        pre_owner = build(dict(pspec, order=order2)); pre_s = pre_owner[view] if view else pre_owner
        pre_t = build(tgt)
        ctx.check(snap(pre_s) == s0, f'{site}.prelude|{region}|harness', 'prelude source differs from the source')
        ctx.call(site + '.prelude', getattr(pre_t, op), pre_s, region=region)
        if op == 'copy_like':
            pt = snap(pre_t)
            want, missing = expect_rows(s0['rows'], pt['phases'])
            ok, msg = rows_equal(pt['rows'], want, merged=True)
            ctx.check(ok and not missing, f'{site}|{region}|flows-mismatch', lambda: f'(first copy) {msg}; target {nonzero_rows(pt["rows"])} source {nonzero_rows(s0["rows"])}')

    if op == 'copy_like':
        ctx.call(site, t.copy_like, s, region=region)
        t1 = snap(t)
        want, missing = expect_rows(s0['rows'], t1['phases'])
        if missing:
            ctx.fail(f'{site}|{region}|phase-missing', f'source phases {missing} not available in target phases {t1["phases"]}')
        ok, msg = rows_equal(t1['rows'], want, merged=True)
        ctx.check(ok, f'{site}|{region}|flows-mismatch', lambda: f'{msg}; target {nonzero_rows(t1["rows"])} source {nonzero_rows(s0["rows"])}')
        if sk == 'S' and tk == 'S':
            ctx.check(t1['cls'] == 'Stream' and t1['phases'] == s0['phases'], f'{site}|{region}|phase-mismatch',
                      f'target phase {t1["phases"]} source {s0["phases"]}')
        ctx.check(t1['T'] == s0['T'] and t1['P'] == s0['P'], f'{site}|{region}|TP-mismatch',
                  f'target T,P = {t1["T"]!r},{t1["P"]!r} source {s0["T"]!r},{s0["P"]!r}')
    elif op == 'copy_thermal_condition':
        ctx.call(site, t.copy_thermal_condition, s, region=region)
        t1 = snap(t)
        ctx.check(t1['T'] == s0['T'] and t1['P'] == s0['P'], f'{site}|{region}|TP-mismatch',
                  f'target T,P = {t1["T"]!r},{t1["P"]!r} source {s0["T"]!r},{s0["P"]!r}')
        ctx.check(t1['rows'] == t0['rows'] and t1['phases'] == t0['phases'] and t1['cls'] == t0['cls'],
                  f'{site}|{region}|target-flows-changed', 'flows/phases of the target changed')
    elif op == 'copy_phase':
        try:
            ctx.call(site, t.copy_phase, s, region=region, allowed=(ValueError,))
        except ValueError:
            if sk == 'S':
                ctx.fail(f'{site}|{region}|exc:ValueError', 'single-phase source rejected')
            ctx.cell('m:copy_phase:multi-rejected')
            ctx.reject('copy_phase from a MultiStream (documented ValueError)')
        t1 = snap(t)
        ctx.check(t1['phases'] == s0['phases'], f'{site}|{region}|phase-mismatch', f'{t1["phases"]} vs {s0["phases"]}')
        ctx.check(list(t1['rows'].values()) == list(t0['rows'].values()) and t1['T'] == t0['T'] and t1['P'] == t0['P'],
                  f'{site}|{region}|target-other-changed', 'flows/T/P of the target changed')
    else:  # copy_flow, no removal, all chemicals
        ctx.call(site, t.copy_flow, s, region=region)
        t1 = snap(t)
        if tk == 'S':
            tot = {}
            for row in s0['rows'].values():
                for c, v in row.items():
                    if v: tot[c] = tot.get(c, 0.0) + v
            want = {t1['phases'][0]: tot} if tot else {}
            ok, msg = rows_equal(t1['rows'], want, merged=len(s0['rows']) > 1)
        else:
            want, missing = expect_rows(s0['rows'], t1['phases'])
            ok, msg = rows_equal(t1['rows'], want, merged=True)
            if missing: ok, msg = False, f'phases {missing} missing'
        ctx.check(ok, f'{site}|{region}|flows-mismatch', lambda: f'{msg}; target {nonzero_rows(t1["rows"])} source {nonzero_rows(s0["rows"])}')
        ctx.check(t1['T'] == t0['T'] and t1['P'] == t0['P'] and t1['phases'] == t0['phases'],
                  f'{site}|{region}|target-other-changed', 'T/P/phases of the target changed')
    ctx.check(snap(s) == s0, f'{site}|{region}|source-modified', 'the source changed')
    # name-keyed reads on both sides, in both lookup orders (raw arrays can agree while the ID lookup is off)
    sids = draw_named(ch, 'named.src', spkg); tids = draw_named(ch, 'named.tgt', tpkg)
    sides = [('source', s, spkg, sids), ('target', t, tpkg, tids)]
    if ch.bool('named.target_first'): sides.reverse()
    for who, x, pk, ids in sides + sides[:1]:
        named_reads(ctx, x, pk, ids, site, region, who)
    # independence, both directions
    t1 = snap(t)
    ctx.call(site + '.overwrite', overwrite, owner, how, 1.0, region=region)
    ctx.check(snap(t) == t1, f'{site}|{region}|not-independent:src->tgt', 'writing the source changed the target')
    s1 = snap(s)
    ctx.call(site + '.overwrite', overwrite, t, how, 2.0, region=region)
    ctx.check(snap(s) == s1, f'{site}|{region}|not-independent:tgt->src', 'writing the target changed the source')
    if nonempty or op in ('copy_thermal_condition', 'copy_phase'):
        ctx.nontriv(['matrix', op, skey(src), skey(tgt), how])


def _matrix_copy(ch, ctx, sk, xpkg, spkg, how):
    pspec, view = draw_source(ch, sk, spkg)
    via = ch.choice('src.via', ['ctor', 'conv']) if sk in ('M', 'V') else 'ctor'
    use_dunder = ch.bool('copy.__copy__')
    th2 = None
    if xpkg:
        tpkg = ch.choice('tgt.pkg', [p for p in chem.PACKAGES if p != spkg])
        tnames = set(names_of(tpkg))
        for j, nme in enumerate(names_of(spkg)):
            if nme not in tnames:
                for row in pspec['flows']: row[j] = 0.0
        th2 = thermo_for(tpkg)
    src = view_spec(pspec, view)
    owner = build(pspec, via)
    s = owner[view] if view else owner
    price = ch.choice('price', [0.0, 2.5])
    s.price = price
    s.set_CF('GWP', 3.0)
    region = f'src={sk},xpkg={int(xpkg)},via={via}'
    ctx.cell(f'm:copy:src={sk}')
    s0 = snap(s)
    site = 'matrix.copy'
    if use_dunder and not xpkg:
        import copy as _copy
        c = ctx.call(site, _copy.copy, s, region=region)
    else:
        c = ctx.call(site, s.copy, None, th2, region=region) if xpkg else ctx.call(site, s.copy, region=region)
    c0 = snap(c)
    ctx.check(c0['cls'] == s0['cls'] and c0['phases'] == s0['phases'], f'{site}|{region}|phase-mismatch',
              f'{c0["cls"]} {c0["phases"]} vs {s0["cls"]} {s0["phases"]}')
    ok, msg = rows_equal(c0['rows'], nonzero_rows(s0['rows']))
    ctx.check(ok, f'{site}|{region}|flows-mismatch', msg)
    ctx.check(c0['T'] == s0['T'] and c0['P'] == s0['P'], f'{site}|{region}|TP-mismatch', f'{c0["T"]},{c0["P"]}')
    if xpkg:
        ctx.check(c.thermo is th2 and c.chemicals is th2.chemicals and c.imol.chemicals is th2.chemicals,
                  f'{site}|{region}|thermo-mismatch', 'copy is not on the requested package')
    else:
        ctx.check(c.thermo is s.thermo, f'{site}|{region}|thermo-mismatch', 'copy is on another package')
    # documented: price and CFs are not copied
    ctx.check(c.price == 0 and c.characterization_factors == {}, f'{site}|{region}|price-cf-copied',
              f'{c.price} {c.characterization_factors}')
    cpkg = tpkg if xpkg else spkg
    sids = draw_named(ch, 'named.src', spkg); cids = draw_named(ch, 'named.copy', cpkg)
    sides = [('source', s, spkg, sids), ('copy', c, cpkg, cids)]
    if ch.bool('named.copy_first'): sides.reverse()
    for who, x, pk, ids in sides + sides[:1]:
        named_reads(ctx, x, pk, ids, site, region, who)
    ctx.check(c.imol is not s.imol and c.imol.data is not s.imol.data and c.thermal_condition is not s.thermal_condition,
              f'{site}|{region}|container-shared', 'copy shares a container with the original')
    ctx.check(snap(s) == s0 and s.price == price, f'{site}|{region}|source-modified', 'the source changed')
    ctx.call(site + '.overwrite', overwrite, owner, how, 1.0, region=region)
    ctx.check(snap(c) == c0, f'{site}|{region}|not-independent:src->copy', 'writing the original changed the copy')
    s1 = snap(s)
    ctx.call(site + '.overwrite', overwrite, c, how, 2.0, region=region)
    c.price = 9.0; c.set_CF('GWP', 1.0)
    ctx.check(snap(s) == s1 and s.price == price and s.characterization_factors == {'GWP': 3.0},
              f'{site}|{region}|not-independent:copy->src', 'writing the copy changed the original')
    if nonzero_rows(s0['rows']):
        ctx.nontriv(['copy', skey(src), xpkg, via, how])


# ---------------------------------------------------------------------------
# (1a') copying onto a MultiStream from one of its OWN phase sub-streams (the source shares a row of the target)
# ---------------------------------------------------------------------------
def prop_own_view(ch, ctx):
    kind3 = ch.choice('kind', ['M', 'M', 'M1'])
    pkg = ch.choice('pkg', list(chem.PACKAGES))
    op = ch.choice('op', ['copy_like', 'copy_like', 'copy_flow', 'copy_thermal_condition'])
    spec = draw_stream(ch, 'ms', kind3, pkg)
    via = ch.choice('ms.via', ['ctor', 'conv']) if kind3 == 'M' else 'ctor'
    q = ch.choice('view', list(spec['phases']))
    ms = build(spec, via)
    view = ms[q]
    region = f'tgt={kind3},via={via},src=own-view'
    site = 'ownview.' + op
    ctx.cell(f'o:{op}:tgt={kind3}')
    before = snap(ms); vbefore = snap(view)
    if nonzero_rows(vbefore['rows']): ctx.nontriv(['ownview', op, skey(spec), via, q])
    ctx.call(site, getattr(ms, op), view, region=region)
    after = snap(ms)
    if op == 'copy_thermal_condition':
        ctx.check(after == before, f'{site}|{region}|state-changed', 'copying the shared thermal condition changed the stream')
    else:
        # the stream now holds exactly what its sub-stream held, in that phase; all other rows are empty
        want = nonzero_rows({q: vbefore['rows'][q]})
        ok, msg = rows_equal(after['rows'], want)
        ctx.check(ok, f'{site}|{region}|flows-mismatch',
                  lambda: f'{msg}; stream {nonzero_rows(after["rows"])} but its sub-stream {q} held {want}')
        ctx.check((after['cls'], after['phases'], after['T'], after['P']) == (before['cls'], before['phases'], before['T'], before['P']),
                  f'{site}|{region}|TP-phase-mismatch', f'{after["phases"]} {after["T"]} {after["P"]}')
    # the sub-stream is still a live view of that row
    v = ms[q]
    ctx.check(_Readers.by_phase(v) == {q: after['rows'][q]} and v.T == ms.T and v.P == ms.P,
              f'{site}|{region}|view-stale', 'the sub-stream no longer shows the row of its stream')
    ctx.check(_Readers.by_phase(view) == {q: after['rows'][q]}, f'{site}|{region}|view-stale',
              'the sub-stream handed out before the call no longer shows the row of its stream')


# ---------------------------------------------------------------------------
# (1b) proxy / flow_proxy / unlink, stateless
# ---------------------------------------------------------------------------
def shares(a, b):
    """Observed container identity between two streams: (flow, TP, phase or None)."""
    f = a.imol.data is b.imol.data
    t = a.thermal_condition is b.thermal_condition
    pa = getattr(a.imol, '_phase', None); pb = getattr(b.imol, '_phase', None)
    p = (pa is pb) if (pa is not None and pb is not None) else None
    return f, t, p


def prop_proxy(ch, ctx):
    sk = ch.choice('src.kind', KINDS)
    pkg = ch.choice('pkg', list(chem.PACKAGES))
    via = ch.choice('src.via', ['ctor', 'conv']) if sk == 'M' else 'ctor'
    op = ch.choice('op', ['proxy', 'flow_proxy'])
    then = ch.choice('then', ['none', 'unlink_proxy', 'unlink_original'])
    how = ch.choice('overwrite', ['item', 'slice', 'empty'])
    src = draw_stream(ch, 'src', sk, pkg)
    s = build(src, via)
    s0 = snap(s)
    region = f'src={sk},via={via}'
    site = 'proxy.' + op
    ctx.cell(f'x:{op}:src={sk},via={via}')
    if nonzero_rows(s0['rows']):
        ctx.nontriv(['proxy', op, then, skey(src), via, how])
    multi = sk != 'S'
    # phase sub-streams handed out by the original before the proxy exists, by both afterwards, by the proxy only, or not at all
    subs = ch.choice('substreams', ['none', 'original-before', 'both-after', 'proxy-after']) if multi else 'none'
    if subs == 'original-before':
        for q in s.phases: s[q]
    p = ctx.call(site, getattr(s, op), region=region)
    ctx.check(type(p) is type(s) and snap(p) == s0 and snap(s) == s0, f'{site}|{region}|state-mismatch',
              lambda: f'proxy {snap(p)} original {s0}')
    f, t, ph = shares(p, s)
    if op == 'proxy':
        ctx.check(f and t and ph in (True, None), f'{site}|{region}|not-shared', f'flow {f} TP {t} phase {ph}')
    else:
        ctx.check(f and not t and ph in (False, None), f'{site}|{region}|sharing-mismatch', f'flow {f} TP {t} phase {ph}')
    # write through, both directions
    for k, (w, r) in enumerate(((s, p), (p, s))):
        before = snap(r)
        ctx.call(site + '.overwrite', overwrite, w, how, 1.0 + k, region=region)
        a, b = snap(w), snap(r)
        ctx.check(list(a['rows'].values()) == list(b['rows'].values()), f'{site}|{region}|flows-not-shared',
                  'a flow write is not visible in the partner')
        if op == 'proxy':
            ctx.check(a == b, f'{site}|{region}|TP-phase-not-shared', f'{a["T"], a["P"], a["phases"]} vs {b["T"], b["P"], b["phases"]}')
        else:
            ctx.check((b['T'], b['P'], b['phases']) == (before['T'], before['P'], before['phases']),
                      f'{site}|{region}|TP-phase-shared', 'flow proxy follows T/P/phase of its partner')
    if subs != 'none':
        ctx.cell('x:substreams=' + subs)
        if subs == 'both-after':
            for q in s.phases: s[q]
        # the flows of a multi-phase proxy are also observable through its phase sub-streams
        for q in p.phases:
            sub = ctx.call(site + '.substream', p.__getitem__, q, region=region)
            ctx.check(_Readers.by_phase(sub)[q] == _Readers.by_phase(p)[q] and sub.T == p.T and sub.P == p.P,
                      f'{site}.substream|{region}|mismatch', f'sub-stream {q} differs from the row of the proxy')
    if then != 'none':
        u, o = (p, s) if then == 'unlink_proxy' else (s, p)
        region2 = region + ',who=' + ('proxy' if u is p else 'original')
        site2 = f'proxy.{op}.unlink'
        ctx.cell(f'x:{op}:{then}')
        bu, bo = snap(u), snap(o)
        ctx.call(site2, u.unlink, region=region2)
        ctx.check(snap(u) == bu and snap(o) == bo, f'{site2}|{region2}|values-changed', 'unlink changed observable values')
        f, t, ph = shares(u, o)
        ctx.check(not f and not t and not ph, f'{site2}|{region2}|still-shared', f'after unlink: flow {f} TP {t} phase {ph}')
        # derived properties are observable state as well: evaluate one side, change and evaluate the other, re-read
        th = s.thermo
        for k, (x, y) in enumerate(((u, o), (o, u))):
            py = read_props(y)
            d = props_diff(py, read_props(fresh_like(snap(y), th)))
            ctx.check(not d, f'{site2}|{region2}|derived-mismatch', lambda: 'after unlink: ' + '; '.join(d))
            by = snap(y)
            ctx.call(site2 + '.overwrite', overwrite, x, how, 3.0 + k, region=region2)
            ctx.check(snap(y) == by, f'{site2}|{region2}|still-shared',
                      'a write to one of the separated streams reached the other')
            d = props_diff(read_props(x), read_props(fresh_like(snap(x), th)))
            ctx.check(not d, f'{site2}|{region2}|derived-stale', lambda: 'changed stream: ' + '; '.join(d))
            d = props_diff(read_props(y), py)
            ctx.check(not d, f'{site2}|{region2}|derived-leak', lambda: 'untouched stream after its former partner changed: ' + '; '.join(d))
        if subs != 'none':
            # after the separation the sub-streams each of them hands out (or handed out before) follow their own stream
            check_views(ctx, o, site2 + '.views', region2 + ',of=partner', salt=5.0)
            check_views(ctx, u, site2 + '.views', region2 + ',of=unlinked', salt=6.0)
            check_views(ctx, o, site2 + '.views', region2 + ',of=partner', salt=7.0)


# ---------------------------------------------------------------------------
# (1c) phase sub-streams of multi-phase streams across link / unlink / copies, stateless
# ---------------------------------------------------------------------------
def check_views(ctx, x, site, region, partner=None, salt=0.0):
    """Every phase sub-stream of ``x`` shows the row, T and P of ``x`` and is live in both directions."""
    names = x.chemicals.IDs
    for r, q in enumerate(x.phases):
        v = ctx.call(site, x.__getitem__, q, region=region)
        row = _Readers.by_phase(x)[q]
        ctx.check(_Readers.by_phase(v) == {q: row} and v.T == x.T and v.P == x.P, f'{site}|{region}|view-stale',
                  lambda: f'sub-stream {q}: {_Readers.by_phase(v)} T={v.T} P={v.P}; stream row {row} T={x.T} P={x.P}')
        val = 11.0 + r + salt
        v.imol[names[0]] = val
        ctx.check(x.imol[q, names[0]] == val, f'{site}|{region}|view-write-lost', f'write through sub-stream {q} not in the stream')
        if partner is not None:
            ctx.check(partner.imol[q, names[0]] == val, f'{site}|{region}|view-write-lost',
                      f'write through sub-stream {q} not in the flow-linked partner')
        x.imol[q, names[-1]] = val + 0.5
        ctx.check(v.imol[names[-1]] == val + 0.5, f'{site}|{region}|view-stale', f'write to the stream not visible in sub-stream {q}')
    x.T = x.T + 3.0 + salt; x.P = x.P + 17.0
    for q in x.phases:
        v = x[q]
        ctx.check(v.T == x.T and v.P == x.P, f'{site}|{region}|view-stale', f'sub-stream {q} does not follow T/P')


def prop_substream(ch, ctx):
    kind3 = ch.choice('kind', ['M', 'M', 'M1'])
    pkg = ch.choice('pkg', list(chem.PACKAGES))
    op = ch.choice('op', ['none', 'link', 'link', 'unlink', 'link+unlink', 'copy_like', 'copy', 'flow_proxy'])
    pre = ch.bool('pre_read')
    a_spec = draw_stream(ch, 'a', kind3, pkg)
    b_spec = draw_stream(ch, 'b', kind3, pkg, phases=a_spec['phases'])
    via = ch.choice('a.via', ['ctor', 'conv']) if kind3 == 'M' else 'ctor'
    a = build(a_spec, via); b = build(b_spec)
    linking = op in ('link', 'link+unlink')
    flags = ch.int('flags', 0, 7) if linking else 0
    flow, phase, TP = bool(flags & 4), bool(flags & 2), bool(flags & 1)
    region = f'kind={kind3},op={op},pre={int(pre)}' + (f',flags={flags:03b}' if linking else '')
    site = 'substream'
    ctx.cell(f'v:{op}:pre={int(pre)}')
    if pre:
        check_views(ctx, a, site + '.before', f'kind={kind3},via={via}')
        for q in b.phases: b[q]
    x = a; partner = None
    if linking:
        ctx.call(site + '.op', a.link_with, b, flow, phase, TP, region=region)
        if flow: partner = b
    if op in ('unlink', 'link+unlink'):
        ctx.call(site + '.op', a.unlink, region=region)
        partner = None
    if op == 'copy_like': ctx.call(site + '.op', a.copy_like, b, region=region)
    if op == 'copy': x = ctx.call(site + '.op', a.copy, region=region)
    if op == 'flow_proxy':
        x = ctx.call(site + '.op', a.flow_proxy, region=region); partner = a
    ctx.nontriv(['substream', op, flags, pre, skey(a_spec), via])
    check_views(ctx, x, site, region, partner, salt=1.0)
    if partner is not None and op != 'flow_proxy':
        check_views(ctx, partner, site + '.partner', region, x, salt=2.0)


# ---------------------------------------------------------------------------
# (1d) link_with, stateless: exactly the selected parts, and the derived views of both members
# ---------------------------------------------------------------------------
def check_member_views(ctx, x, th, site, region, who):
    got = ctx.call(site, read_views, x, region=region)
    want = read_views(fresh_like(snap(x), th))
    d = views_diff(got, want)
    ctx.check(not d, f'{site}|{region}|view-mismatch:{who}',
              lambda: f'{who} (phases {vs.phases_of(x)}, T={x.T}, P={x.P}): ' + '; '.join(d))
    if not isinstance(got['mass'], str):
        mass = _Readers.dense(x) * np.asarray(th.chemicals.MW, float)
        ctx.check(np.allclose(got['mass'].reshape(mass.shape), mass, rtol=1e-12, atol=0.0),
                  f'{site}|{region}|mass-view-mismatch:{who}', 'mass view is not mol*MW')


def prop_link_views(ch, ctx):
    kind = ch.choice('kind', ['S', 'S', 'S', 'M', 'M1'])
    pkg = ch.choice('pkg', list(chem.PACKAGES))
    flags = ch.int('flags', 0, 7)
    flow, phase, TP = bool(flags & 4), bool(flags & 2), bool(flags & 1)
    pre = ch.choice('pre_read', ['none', 'linked', 'other', 'both'])
    first = ch.choice('first', ['linked', 'other'])
    a_spec = draw_stream(ch, 'a', kind, pkg)
    b_spec = draw_stream(ch, 'b', kind, pkg, phases=None if kind == 'S' else a_spec['phases'])
    th = thermo_for(pkg)
    a = build(a_spec); b = build(b_spec)     # a.link_with(b): a is the linked stream, b the other
    region = f'kind={kind},flags={flags:03b},samephase={int(a_spec["phases"] == b_spec["phases"])}'
    site = 'link'
    ctx.cell(f'k:flags={flags:03b}'); ctx.cell('k:kind=' + kind)
    if kind == 'S' and a_spec['phases'] != b_spec['phases']: ctx.cell(f'k:S,different-phase,flags={flags:03b}')
    ctx.nontriv(['link', kind, flags, pre, first, skey(a_spec), skey(b_spec)])
    if pre in ('linked', 'both'): read_views(a)
    if pre in ('other', 'both'): read_views(b)
    a0, b0 = snap(a), snap(b)
    ctx.call(site, a.link_with, b, flow, phase, TP, region=region)
    def expected():
        bb = snap(b)
        want = dict(a0)
        if flow:
            want['rows'] = dict(zip(a0['phases'], bb['rows'].values()))
        if phase and kind == 'S':
            want['phases'] = bb['phases']; want['rows'] = dict(zip(bb['phases'], want['rows'].values()))
        if TP: want['T'], want['P'] = bb['T'], bb['P']
        return want
    ctx.check(snap(b) == b0, f'{site}|{region}|other-modified', 'link_with changed the stream linked to')
    ctx.check(snap(a) == expected(), f'{site}|{region}|state-mismatch', lambda: f'{snap(a)} want {expected()}')
    f, t, p = shares(a, b)
    ctx.check(f == flow and t == TP and (p is None or p == phase), f'{site}|{region}|identity-mismatch',
              f'shared flow {f} TP {t} phase {p}')
    order = (('linked', a), ('other', b)) if first == 'linked' else (('other', b), ('linked', a))
    for who, x in order: check_member_views(ctx, x, th, site + '.views', region, who)
    # later changes of the other stream travel through the selected parts only; views follow their own stream
    names = names_of(pkg)
    if kind == 'S': b.imol[names[0]] = 20.0
    else: b.imol[b.phases[0], names[0]] = 20.0
    b.T = b.T + 10.0
    a0 = dict(a0, rows={q: dict(r) for q, r in a0['rows'].items()})
    ctx.check(snap(a) == expected(), f'{site}|{region}|state-mismatch:after-change', lambda: f'{snap(a)} want {expected()}')
    for who, x in order: check_member_views(ctx, x, th, site + '.views', region + ',changed=1', who)
    if kind == 'S' and ch.bool('unlink'):
        st = snap(a)
        ctx.call(site + '.unlink', a.unlink, region=region)
        ctx.check(snap(a) == st and shares(a, b) == (False, False, False), f'{site}.unlink|{region}|mismatch', 'unlink after link_with')
        for who, x in order: check_member_views(ctx, x, th, site + '.unlink.views', region, who)


# ---------------------------------------------------------------------------
# (2) histories with a sharing-cell model
# ---------------------------------------------------------------------------
class World:
    """Reference model: every stream points to a flow cell, a TP cell and (single-phase) a phase cell."""

    def __init__(self, kind, phases, n):
        self.kind = kind; self.phases = phases; self.n = n
        self.real = []; self.f = []; self.t = []; self.p = []; self.g = []; self.ctor = []
        self.sub_read = []; self.dirty = []; self.is_proxy = []
        self.F = {}; self.TP = {}; self.PH = {}
        self.next = 0

    def new_id(self):
        self.next += 1
        return self.next

    def add(self, real, flows, T, P, phase, f=None, t=None, p=None, g=None, ctor=False):
        if f is None:
            f = self.new_id(); self.F[f] = np.array(flows, float)
        if t is None:
            t = self.new_id(); self.TP[t] = [float(T), float(P)]
        if p is None:
            p = self.new_id(); self.PH[p] = phase
        if g is None: g = self.new_id()
        self.real.append(real); self.f.append(f); self.t.append(t); self.p.append(p); self.g.append(g)
        self.ctor.append(ctor); self.sub_read.append(False); self.dirty.append(False); self.is_proxy.append(False)
        return len(self.real) - 1

    def alias_group(self, i):
        return [j for j in range(len(self.real)) if self.g[j] == self.g[i]]


def check_world(ctx, w, site, region):
    N = len(w.real)
    for i in range(N):
        s = w.real[i]
        a = _Readers.dense(s)
        want = w.F[w.f[i]]
        if a.shape != want.shape or not np.array_equal(a, want):
            ctx.fail(f'{site}|{region}|flows-mismatch', f'stream {i}: {a.tolist()} model {want.tolist()}')
        if [float(s.T), float(s.P)] != w.TP[w.t[i]]:
            ctx.fail(f'{site}|{region}|TP-mismatch', f'stream {i}: {s.T!r},{s.P!r} model {w.TP[w.t[i]]}')
        if w.kind == 'S':
            if s.phase != w.PH[w.p[i]]:
                ctx.fail(f'{site}|{region}|phase-mismatch', f'stream {i}: {s.phase} model {w.PH[w.p[i]]}')
        elif tuple(s.phases) != tuple(w.phases):
            ctx.fail(f'{site}|{region}|phase-mismatch', f'stream {i}: {s.phases} model {w.phases}')
    for i in range(N):
        for j in range(i + 1, N):
            f, t, p = shares(w.real[i], w.real[j])
            mf, mt = w.f[i] == w.f[j], w.t[i] == w.t[j]
            if f != mf:
                ctx.fail(f'{site}|{region}|flow-identity', f'streams {i},{j}: imol.data shared={f}, model {mf}')
            if t != mt:
                ctx.fail(f'{site}|{region}|TP-identity', f'streams {i},{j}: thermal_condition shared={t}, model {mt}')
            if w.kind == 'S' and p != (w.p[i] == w.p[j]):
                ctx.fail(f'{site}|{region}|phase-identity', f'streams {i},{j}: phase container shared={p}, model {w.p[i] == w.p[j]}')
            if w.real[i].shares_flow_rate_with(w.real[j]) != mf:
                ctx.fail(f'{site}|{region}|shares_flow_rate_with', f'streams {i},{j}: model {mf}')


def prop_links(ch, ctx):
    kind = ch.choice('kind', ['S', 'S', 'M', 'M', 'M1'])
    pkg = ch.choice('pkg', list(chem.PACKAGES))
    names = names_of(pkg); n = len(names)
    if kind == 'S': phases = None
    elif kind == 'M1': phases = [ch.choice('phases', ALL)]
    else: phases = sorted(ch.subset('phases', ALL, min_size=2, max_size=3))
    w = World('S' if kind == 'S' else 'M', tuple(phases) if phases else None, n)
    ctx.cell('l:kind=' + w.kind)
    n0 = ch.int('n0', 2, 3)
    for k in range(n0):
        spec = draw_stream(ch, f's{k}', kind, pkg, phases=phases)
        via = ch.choice(f's{k}.via', ['ctor', 'conv']) if kind == 'M' else 'ctor'
        s = build(spec, via)
        w.add(s, _Readers.dense(s).copy(), spec['T'], spec['P'], spec['phases'][0] if kind == 'S' else None,
              ctor=(via == 'ctor' and kind != 'S'))
    region = f'kind={kind}'
    check_world(ctx, w, 'links.init', region)
    opnames = []
    structural = writes = 0
    base_ops = ['proxy', 'flow_proxy', 'copy', 'link', 'link', 'link', 'unlink', 'unlink', 'copy_like',
                'copy_thermal_condition', 'set_flow', 'set_flows', 'empty', 'set_T', 'set_P']
    if w.kind == 'S': base_ops += ['set_phase', 'set_phase', 'copy_phase']
    else: base_ops += ['read_sub', 'read_sub', 'write_sub']
    base_ops += ['read_views', 'read_views']
    th = thermo_for(pkg)
    phase_written = False
    def views_of(i, site):
        # the mass / volumetric views of every member must be those of its own flows, phase, T and P
        s = w.real[i]
        T, P = w.TP[w.t[i]]
        if w.kind == 'S' and phase_written:
            # C11-F1 (known): vol keeps the molar volumes of the previous phase until T or P changes;
            # re-evaluate at a neighbouring temperature first so that only the binding to the phase is judged
            s.T = T + 1.0; read_views(s); s.T = T
            ctx.cell('l:read_views:refreshed')
        got = ctx.call(site, read_views, s, region=region)
        labels = (w.PH[w.p[i]],) if w.kind == 'S' else tuple(w.phases)
        state = {'cls': 'Stream' if w.kind == 'S' else 'MultiStream', 'phases': labels, 'T': T, 'P': P,
                 'rows': {q: dict(zip(th.chemicals.CASs, row)) for q, row in zip(labels, w.F[w.f[i]].tolist())}}
        want = read_views(fresh_like(state, th))
        mass = w.F[w.f[i]] * np.asarray(th.chemicals.MW, float)
        if not isinstance(got['mass'], str):
            g = got['mass'].reshape(mass.shape)
            if not np.allclose(g, mass, rtol=1e-12, atol=0.0):
                ctx.fail(f'{site}|{region}|mass-view-mismatch', f'stream {i}: {g.tolist()} want mol*MW {mass.tolist()}')
        d = views_diff(got, want)
        if d:
            ctx.fail(f'{site}|{region}|view-mismatch', f'stream {i} (phase {labels}, T={T}, P={P}): ' + '; '.join(d))

    nsteps = ch.int('nsteps', 1, 30)
    for step in range(nsteps):
        N = len(w.real)
        op = ch.choice(f'{step}.op', base_ops)
        if op in ('proxy', 'flow_proxy', 'copy') and N >= 7:
            op = 'link'
        i = ch.int(f'{step}.i', 0, N - 1)
        s = w.real[i]
        site = 'links.' + op
        if op == 'proxy':
            if w.ctor[i]:
                ctx.cell('avoided:proxy-of-constructor-built-MultiStream'); continue
            r = ctx.call(site, s.proxy, region=region)
            k = w.add(r, None, None, None, None, f=w.f[i], t=w.t[i], p=w.p[i], g=w.g[i])
            w.is_proxy[k] = True
            structural += 1
        elif op == 'flow_proxy':
            r = ctx.call(site, s.flow_proxy, region=region)
            T, P = w.TP[w.t[i]]
            w.add(r, None, T, P, w.PH[w.p[i]], f=w.f[i])
            structural += 1
        elif op == 'copy':
            r = ctx.call(site, s.copy, region=region)
            T, P = w.TP[w.t[i]]
            w.add(r, w.F[w.f[i]].copy(), T, P, w.PH[w.p[i]])
            structural += 1
        elif op == 'link':
            j = ch.int(f'{step}.j', 0, N - 1)
            flags = ch.int(f'{step}.flags', 0, 7)
            flow, phase, TP = bool(flags & 4), bool(flags & 2), bool(flags & 1)
            if len(w.alias_group(i)) > 1 and (flow or (phase and w.kind == 'S')):
                ctx.cell('avoided:link-flow/phase-on-proxy-alias'); continue
            ctx.call(site, s.link_with, w.real[j], flow, phase, TP, region=region + f',flags={flags:03b}')
            if flow: w.f[i] = w.f[j]
            if TP: w.t[i] = w.t[j]
            if phase and w.kind == 'S': w.p[i] = w.p[j]; phase_written = True
            if (flow or TP) and w.sub_read[i]: w.dirty[i] = True
            ctx.cell(f'l:link={flags:03b}')
            structural += 1
            order = ch.choice(f'{step}.views', ['none', 'ij', 'ji'])
            if order != 'none':
                for k in ((i, j) if order == 'ij' else (j, i)): views_of(k, site + '.views')
        elif op == 'unlink':
            if len(w.alias_group(i)) > 1:
                ctx.cell('avoided:unlink-on-proxy-alias'); continue
            ctx.call(site, s.unlink, region=region)
            f = w.new_id(); w.F[f] = w.F[w.f[i]].copy(); w.f[i] = f
            t = w.new_id(); w.TP[t] = list(w.TP[w.t[i]]); w.t[i] = t
            p = w.new_id(); w.PH[p] = w.PH[w.p[i]]; w.p[i] = p
            if w.sub_read[i]: w.dirty[i] = True
            structural += 1
        elif op in ('copy_like', 'copy_thermal_condition', 'copy_phase'):
            j = ch.int(f'{step}.j', 0, N - 1)
            o = w.real[j]
            ctx.call(site, getattr(s, op), o, region=region)
            if op == 'copy_like': w.F[w.f[i]][...] = w.F[w.f[j]]
            if op in ('copy_like', 'copy_thermal_condition'): w.TP[w.t[i]][:] = w.TP[w.t[j]]
            if op in ('copy_like', 'copy_phase') and w.kind == 'S': w.PH[w.p[i]] = w.PH[w.p[j]]; phase_written = True
            writes += 1
        elif op == 'read_views':
            views_of(i, site)
        elif op in ('read_sub', 'write_sub'):
            # phase sub-streams are another way to observe (and write) the flows, T and P of a multi-phase stream
            row = ch.int(f'{step}.row', 0, len(w.phases) - 1)
            if w.is_proxy[i]:
                ctx.cell('avoided:substream-of-proxy'); continue
            if w.dirty[i]:
                ctx.cell('avoided:substream-handed-out-before-link/unlink'); continue
            q = w.phases[row]
            v = ctx.call(site, s.__getitem__, q, region=region)
            w.sub_read[i] = True
            if op == 'write_sub':
                k = ch.int(f'{step}.k', 0, n - 1)
                val = ch.flows(f'{step}.v', 1)[0]
                ctx.call(site, v.imol.__setitem__, names[k], val, region=region)
                w.F[w.f[i]][row, k] = val
                writes += 1
            got = np.asarray(v.mol.to_array(), float)
            if not np.array_equal(got, w.F[w.f[i]][row]) or [float(v.T), float(v.P)] != w.TP[w.t[i]] or v.phase != q:
                ctx.fail(f'{site}|{region}|substream-mismatch',
                         f'stream {i} sub-stream {q}: {got.tolist()} T={v.T} P={v.P}; model {w.F[w.f[i]][row].tolist()} {w.TP[w.t[i]]}')
        elif op == 'set_flow':
            row = ch.int(f'{step}.row', 0, len(w.phases) - 1) if w.kind == 'M' else 0
            k = ch.int(f'{step}.k', 0, n - 1)
            v = ch.flows(f'{step}.v', 1)[0]
            if w.kind == 'M':
                ctx.call(site, s.imol.__setitem__, (w.phases[row], names[k]), v, region=region)
            else:
                ctx.call(site, s.imol.__setitem__, names[k], v, region=region)
            w.F[w.f[i]][row, k] = v
            writes += 1
        elif op == 'set_flows':
            nr = len(w.phases) if w.kind == 'M' else 1
            rows = [ch.flows(f'{step}.row{r}', n) for r in range(nr)]
            arr = np.array(rows, float)
            if w.kind == 'M':
                ctx.call(site, s.imol.data.__setitem__, slice(None), arr, region=region)
            else:
                def f(): s.mol = arr[0]
                ctx.call(site, f, region=region)
            w.F[w.f[i]][...] = arr
            writes += 1
        elif op == 'empty':
            ctx.call(site, s.empty, region=region)
            w.F[w.f[i]][...] = 0.0
            writes += 1
        elif op == 'set_T':
            v = ch.float(f'{step}.v', 250., 500.)
            s.T = v; w.TP[w.t[i]][0] = float(v); writes += 1
        elif op == 'set_P':
            v = ch.float(f'{step}.v', 1e4, 1e7)
            s.P = v; w.TP[w.t[i]][1] = float(v); writes += 1
        elif op == 'set_phase':
            v = ch.choice(f'{step}.v', ALL)
            def f(): s.phase = v
            ctx.call(site, f, region=region)
            w.PH[w.p[i]] = v; writes += 1; phase_written = True
        ctx.cell('l:op=' + op)
        opnames.append(op)
        check_world(ctx, w, site, region)
    # final sweep: a unique value written through one member of every cell must show in exactly its members
    salt = 0.0
    for cid in sorted(set(w.f)):
        i = w.f.index(cid); salt += 1.0
        s = w.real[i]
        if w.kind == 'M': s.imol[w.phases[0], names[0]] = 1000.0 + salt
        else: s.imol[names[0]] = 1000.0 + salt
        w.F[cid][0, 0] = 1000.0 + salt
    for cid in sorted(set(w.t)):
        i = w.t.index(cid); salt += 1.0
        w.real[i].T = 600.0 + salt; w.real[i].P = 2e7 + salt
        w.TP[cid][:] = [600.0 + salt, 2e7 + salt]
    if w.kind == 'S':
        for k, cid in enumerate(sorted(set(w.p))):
            i = w.p.index(cid)
            v = ALL[(ALL.index(w.PH[cid]) + 1 + k) % len(ALL)]
            w.real[i].phase = v; w.PH[cid] = v
    check_world(ctx, w, 'links.sweep', region)
    if structural and writes:
        ctx.nontriv(['links', kind, pkg, phases, opnames])


# ---------------------------------------------------------------------------
# (3) pickles
# ---------------------------------------------------------------------------
def roundtrip(ch):
    proto = ch.choice('protocol', [2, 3, 4, 5])
    return lambda o: pickle.loads(pickle.dumps(o, protocol=proto))


def prop_pickle_stream(ch, ctx):
    rt = roundtrip(ch)
    kind3 = ch.choice('kind', KINDS)
    pkg = ch.choice('pkg', list(chem.PACKAGES) + ['LOCK'])
    ideal = ch.bool('ideal')
    spec = draw_stream(ch, 's', kind3, pkg)
    price = ch.choice('price', [0.0, 1.5, -0.25, None])
    if price is None: price = ch.float('price.v', -1e3, 1e3)
    cf_mode = ch.choice('cf.mode', ['ctor', 'ctor', 'set', 'none'])
    cfs = {}
    if cf_mode != 'none':
        for k in ch.subset('cf.keys', ['GWP', 'FEC', 'land use'], min_size=1):
            cfs[k] = ch.choice(f'cf.{k}', [1.0, -2.5, 0.0, 1e-3])
    th = thermo_for(pkg)
    if ideal: th = th.ideal()
    kw = dict(T=spec['T'], P=spec['P'], price=price, thermo=th)
    if cf_mode == 'ctor': kw['characterization_factors'] = dict(cfs)
    flow_as = ch.choice('flow.as', ['list', 'list', 'list', 'array'])
    region = f'kind={kind3}'
    ctx.cell('p:stream:' + spec['kind'])
    if spec['kind'] == 'S':
        flow = np.array(spec['flows'][0], float) if flow_as == 'array' else [float(v) for v in spec['flows'][0]]
        s = ctx.call('construct.stream', tmo.Stream, None, flow=flow, phase=spec['phases'][0],
                     region=region + ',flow=' + flow_as, **kw)
    else:
        flow = np.array(spec['flows'], float) if flow_as == 'array' else [[float(v) for v in r] for r in spec['flows']]
        s = ctx.call('construct.stream', tmo.MultiStream, None, flow=flow, phases=tuple(spec['phases']),
                     region=region + ',flow=' + flow_as, **kw)
    if cf_mode == 'set':
        for k, v in cfs.items(): s.set_CF(k, v)
    s0 = snap(s)
    want_rows = {p: {c: float(v) for c, v in zip(th.chemicals.CASs, row)} for p, row in zip(spec['phases'], spec['flows'])}
    ctx.check(s0['rows'] == want_rows and s0['T'] == spec['T'] and s0['P'] == spec['P'] and s.price == price,
              f'construct.stream|{region}|state-mismatch', 'constructed stream does not show its arguments')
    if nonzero_rows(s0['rows']):
        ctx.nontriv(['pstream', skey(spec), ideal, cf_mode, sorted(cfs), price == 0])
    registry = type(s).registry.data
    known_ids = set(registry)
    try:
        o = ctx.call('pickle.stream', rt, s, region=region)
    finally:
        for k in [k for k in registry if k not in known_ids]: del registry[k]   # harness hygiene (see pickle_stream_id)
    o0 = snap(o)
    # a MultiStream holding one phase may come back as the Stream the library itself normalises it to
    ctx.check((o0['cls'] == s0['cls'] or (kind3 == 'M1' and o0['cls'] == 'Stream')) and o0['phases'] == s0['phases'],
              f'pickle.stream|{region}|phase-mismatch',
              f'{o0["cls"]} {o0["phases"]} vs {s0["cls"]} {s0["phases"]}')
    ctx.check(o0['rows'] == s0['rows'], f'pickle.stream|{region}|flows-mismatch', lambda: f'{o0["rows"]} vs {s0["rows"]}')
    ctx.check(o0['T'] == s0['T'] and o0['P'] == s0['P'], f'pickle.stream|{region}|TP-mismatch', f'{o0["T"]},{o0["P"]}')
    ctx.check(o.price == s.price, f'pickle.stream|{region}|price-mismatch', f'{o.price!r} vs {s.price!r}')
    ctx.check(type(o.thermo) is type(th) and tuple(o.chemicals.CASs) == tuple(th.chemicals.CASs)
              and tuple(o.chemicals.IDs) == tuple(th.chemicals.IDs),
              f'pickle.stream|{region}|thermo-mismatch', 'package of the unpickled stream differs')
    ctx.check(snap(s) == s0, f'pickle.stream|{region}|source-modified', 'pickling changed the stream')
    # enthalpy at the stream's condition as a behavioural probe of the carried package
    if pkg != 'LOCK' and nonzero_rows(s0['rows']) and all(p in 'lg' for p in s0['phases']):
        H0 = ctx.call('pickle.stream.H', lambda: s.H, region=region)
        H1 = ctx.call('pickle.stream.H', lambda: o.H, region=region)
        ctx.check(H0 == H1 or abs(H0 - H1) <= 1e-12 * abs(H0), f'pickle.stream|{region}|H-mismatch', f'{H0!r} vs {H1!r}')
    # the unpickled object is independent of the original
    overwrite(o, 'item', 1.0)
    ctx.check(snap(s) == s0, f'pickle.stream|{region}|not-independent', 'writing the unpickled stream changed the original')
    # characterization factors: given at construction, and carried by the pickle
    if cf_mode == 'ctor':
        ctx.check(s.characterization_factors == cfs, f'construct.stream|{region}|cf-dropped',
                  f'constructor was given {cfs} but the stream has {s.characterization_factors}')
    ctx.check(o.characterization_factors == s.characterization_factors, f'pickle.stream|{region}|cf-mismatch',
              f'{o.characterization_factors} vs {s.characterization_factors}')


def prop_pickle_stream_id(ch, ctx):
    """The ID is observable state, too: an unregistered stream (ID=None) must come back unregistered."""
    rt = roundtrip(ch)
    kind3 = ch.choice('kind', ['S', 'M'])
    pkg = ch.choice('pkg', ['D', 'E', 'F'])
    spec = draw_stream(ch, 's', kind3, pkg)
    s = build(spec)
    region = f'kind={kind3}'
    ctx.cell('p:stream-id:' + kind3)
    registry = type(s).registry.data
    before = dict(registry)
    ctx.nontriv(['pstream-id', skey(spec)])
    o = ctx.call('pickle.stream', rt, s, region=region)
    ctx.check(snap(o) == snap(s), f'pickle.stream|{region}|state-mismatch', 'unpickled stream differs')
    ctx.check(o.ID == s.ID, f'pickle.stream|{region}|id-mismatch', f'ID {o.ID!r} vs {s.ID!r}')
    ctx.check(dict(registry) == before, f'pickle.stream|{region}|registry-changed', 'unpickling an unregistered stream changed the stream registry')


# -- reactions ----------------------------------------------------------------
def draw_reaction(ch, tag, names, phases, basis, chemicals):
    m = ch.int(f'{tag}.nsp', 2, min(4, len(names)))
    idx = ch.subset(f'{tag}.species', list(range(len(names))), min_size=m, max_size=m)
    coefs = [ch.choice(f'{tag}.c{k}', [1.0, 2.0, 0.5, 3.0, 1.25]) for k in range(m)]
    nreact = ch.int(f'{tag}.nreact', 1, m - 1)
    X = ch.choice(f'{tag}.X', [0.0, 1.0, 0.5, None])
    if X is None: X = ch.float(f'{tag}.X.v', 0.0, 1.0)
    dct = {}
    for k, (j, c) in enumerate(zip(idx, coefs)):
        c = -c if k < nreact else c
        if phases:
            dct[names[j]] = (ch.choice(f'{tag}.ph{k}', list(phases)), c)
        else:
            dct[names[j]] = c
    kw = {'phases': tuple(phases)} if phases else {}
    return tmo.Reaction(dct, reactant=names[idx[0]], X=X, chemicals=chemicals, basis=basis, **kw)


def rxn_state(r):
    """Observable state of a reaction object (plain Python)."""
    cls = type(r).__name__
    if isinstance(r, tmo.ReactionSystem):
        return [cls, [rxn_state(i) for i in r.reactions], r._basis, tuple(r.chemicals.IDs), tuple(r._phases)]
    sto = r.stoichiometry
    if isinstance(sto, list): sto = [np.asarray(i.to_array()).tolist() for i in sto]
    else: sto = np.asarray(sto.to_array()).tolist()
    X = np.asarray(r.X, float).tolist()
    reactant = list(r.reactants) if hasattr(r, 'reactants') else r.reactant
    return [cls, sto, X, r.basis, tuple(r.phases), reactant, tuple(r.chemicals.IDs), tuple(r.chemicals.CASs),
            np.asarray(r.MWs, float).tolist()]


def prop_pickle_reaction(ch, ctx):
    rt = roundtrip(ch)
    cls = ch.choice('cls', ['Reaction', 'ParallelReaction', 'SeriesReaction', 'ReactionSystem', 'ReactionItem'])
    pkg = ch.choice('pkg', ['A', 'B', 'C', 'D', 'G'])
    basis = ch.choice('basis', ['mol', 'wt'])
    phases = sorted(ch.subset('phases', ['l', 'g', 's', 'L'], min_size=1, max_size=3)) if ch.bool('with_phases') else []
    th = thermo_for(pkg); chemicals = th.chemicals; names = list(names_of(pkg))
    tmo.settings.set_thermo(th)
    region = f'cls={cls},phases={int(bool(phases))},basis={basis}'
    ctx.cell('p:rxn:' + cls)
    def mk(tag): return ctx.call('construct.reaction', draw_reaction, ch, tag, names, phases, basis, chemicals, region=region)
    if cls == 'Reaction':
        r = mk('r0')
    elif cls in ('ParallelReaction', 'SeriesReaction', 'ReactionItem'):
        k = ch.int('nrxn', 1, 3)
        setcls = tmo.SeriesReaction if cls == 'SeriesReaction' else tmo.ParallelReaction
        r = ctx.call('construct.reaction', setcls, [mk(f'r{i}') for i in range(k)], region=region)
        if cls == 'ReactionItem': r = r[ch.int('item', 0, k - 1)]
    else:
        parts = []
        for i in range(ch.int('nparts', 1, 3)):
            pc = ch.choice(f'part{i}.cls', ['Reaction', 'ParallelReaction', 'SeriesReaction'])
            if pc == 'Reaction': parts.append(mk(f'p{i}'))
            else:
                setcls = tmo.SeriesReaction if pc == 'SeriesReaction' else tmo.ParallelReaction
                parts.append(setcls([mk(f'p{i}r{j}') for j in range(ch.int(f'part{i}.n', 1, 2))]))
        r = ctx.call('construct.reaction', tmo.ReactionSystem, *parts, region=region)
    st0 = rxn_state(r)
    o = ctx.call('pickle.reaction', rt, r, region=region)
    ctx.check(type(o) is type(r), f'pickle.reaction|{region}|class-mismatch', f'{type(o).__name__}')
    st1 = ctx.call('pickle.reaction.state', rxn_state, o, region=region)
    ctx.check(st1 == st0, f'pickle.reaction|{region}|state-mismatch', lambda: f'{st1} vs {st0}')
    ctx.check(rxn_state(r) == st0, f'pickle.reaction|{region}|source-modified', 'pickling changed the reaction')
    # behaviour: react the same material with both
    n = len(names)
    rows = [ch.flows(f'feed{i}', n) for i in range(len(phases) if phases else 1)]
    feed = np.array(rows if phases else rows[0], float) + 1.0
    # only equality of the two outcomes is judged here (result, or the type of the exception): whether
    # force_reaction itself is right for this feed is C05's subject, not a pickling matter
    def react(obj):
        x = feed.copy()
        try:
            obj.force_reaction(x)
        except Exception as e:
            ctx.cell('p:rxn:react-raised:' + type(e).__name__)
            return 'exc:' + type(e).__name__
        return x.tolist()
    a = react(r); b = react(o)
    ctx.check(a == b, f'pickle.reaction|{region}|behaviour-mismatch', lambda: f'{a} vs {b}')
    # independence: changing the conversion of the unpickled object leaves the original alone
    if cls != 'ReactionSystem':
        o.X = np.asarray(o.X) * 0.5
        ctx.check(rxn_state(r) == st0, f'pickle.reaction|{region}|not-independent', 'original changed with the unpickled reaction')
    ctx.nontriv(['prxn', cls, pkg, basis, phases, st0[1] if cls != 'ReactionSystem' else [i[1] for i in st0[1]]])


# -- chemicals ----------------------------------------------------------------
# Every pickle case builds FRESH Chemical objects from drawn arguments (cache=False): compiling a package
# writes into its chemicals (e.g. N_solutes of heavy chemicals), so shared objects would make a case depend
# on what ran before it.
CHEM_FIELDS = ('ID', 'CAS', 'MW', 'Tm', 'Tb', 'Tc', 'Pc', 'Vc', 'omega', 'Hf', 'S0', 'LHV', 'HHV', 'Hfus', 'Sfus',
               'phase_ref', 'locked_state', 'N_solutes', 'formula', 'iupac_name', 'common_name', 'Tt', 'Pt', 'dipole',
               'atoms', 'synonyms', 'InChI', 'InChI_key', 'smiles', 'pubchemid', 'similarity_variable',
               'iscyclic_aliphatic', 'combustion', 'eos')
PHASE_FUNCS = ('H', 'S', 'Cn', 'V', 'mu', 'kappa', 'H_excess', 'S_excess')
T_FUNCS = ('Psat', 'Hvap', 'sigma', 'epsilon')
DB_NAMES = list(chem.U_A) + ['Glucose', 'LacticAcid', 'N2', 'O2', 'CO2', 'NaCl']
NATURAL_LOCK = {'Glucose': 's', 'LacticAcid': 'l', 'N2': 'g', 'O2': 'g', 'CO2': 'g', 'NaCl': 's'}


def draw_chemical_args(ch, tag, names=DB_NAMES, allow_user=True):
    """Drawn constructor arguments of one chemical (JSON-able dict)."""
    variant = ch.choice(f'{tag}.variant', ['ref', 'ref', 'locked', 'user'] if allow_user else ['ref', 'ref', 'locked'])
    a = {'variant': variant}
    if variant == 'user':
        a['ID'] = 'User' + tag.replace('.', '')
        a['phase'] = ch.choice(f'{tag}.phase', ['s', 'l', 'g', None])
        a['MW'] = ch.float(f'{tag}.MW', 10., 500.)
        a['Hf'] = ch.float(f'{tag}.Hf', -1e6, 1e5)
        if a['phase'] is None:
            a['Tb'] = ch.float(f'{tag}.Tb', 300., 450.)
            a['phase_ref'] = ch.choice(f'{tag}.phase_ref', ['s', 'l', 'g'])
    else:
        a['ID'] = ch.choice(f'{tag}.name', list(names))
        if variant == 'locked':
            nat = NATURAL_LOCK.get(a['ID'])
            a['phase'] = nat if (nat and ch.int(f'{tag}.natural', 0, 3)) else ch.choice(f'{tag}.phase', ['s', 'l', 'g'])
        else:
            a['phase_ref'] = ch.choice(f'{tag}.phase_ref', ['s', 'l', 'g', None])
    a['N_solutes'] = ch.choice(f'{tag}.N_solutes', [None, None, 0, 1, 2, 3])
    return a


def make_chemical(a):
    if a['variant'] == 'user':
        kw = dict(search_db=False, default=True, MW=a['MW'], Hf=a['Hf'])
        if a['phase']: kw['phase'] = a['phase']
        else: kw.update(Tb=a['Tb'], phase_ref=a['phase_ref'])
    elif a['variant'] == 'locked':
        kw = dict(phase=a['phase'])
    else:
        kw = dict(phase_ref=a['phase_ref']) if a['phase_ref'] else {}
    c = tmo.Chemical(a['ID'], cache=False, **kw)
    if a['N_solutes'] is not None: c.N_solutes = a['N_solutes']   # settable attribute only; no constructor argument exists
    return c


def chem_state(c, phase, T, P):
    out = {}
    for f in CHEM_FIELDS:
        try:
            v = getattr(c, f)
            out[f] = type(v).__name__ if f == 'eos' else v
        except Exception as e: out[f] = 'exc:' + type(e).__name__
    out['aliases'] = sorted(c.aliases) if hasattr(c, 'aliases') else None
    for grp in ('Dortmund', 'UNIFAC', 'PSRK', 'NIST'):
        g = getattr(c, grp, None)
        out['grp:' + grp] = sorted(dict(g).items()) if g is not None else None
    locked = c.locked_state
    for f in PHASE_FUNCS:
        fn = getattr(c, f, None)
        try:
            out[f] = float(fn(T, P) if locked else fn(phase, T, P))
        except Exception as e:
            out[f] = 'exc:' + type(e).__name__
    for f in T_FUNCS:
        fn = getattr(c, f, None)
        try: out[f] = float(fn(T))
        except Exception as e: out[f] = 'exc:' + type(e).__name__
    return out


def state_diff(st0, st1):
    return [f'{k}: {st1[k]!r} vs {st0[k]!r}' for k in st0 if not same_value(st0[k], st1[k])]


def same_value(a, b):
    if isinstance(a, float) and isinstance(b, float):
        return a == b or (a != a and b != b)
    try:
        return bool(a == b)
    except Exception:
        return repr(a) == repr(b)


def prop_pickle_chemical(ch, ctx):
    rt = roundtrip(ch)
    T = ch.float('T', 250., 500.); P = ch.float('P', 1e4, 1e7)
    phase = ch.choice('probe.phase', ['s', 'l', 'g'])
    args = draw_chemical_args(ch, 'c')
    variant = args['variant']
    region = f'variant={variant},phase={args.get("phase")},phase_ref={args.get("phase_ref")},N_solutes={"set" if args["N_solutes"] is not None else "unset"}'
    if variant == 'ref': ctx.cell(f'p:chem:ref={args["phase_ref"]}')
    else: ctx.cell('p:chem:' + variant)
    ctx.cell('p:chem:N_solutes=' + ('set' if args['N_solutes'] is not None else 'unset'))
    ctx.nontriv(['pchem', variant, args['ID'], args.get('phase'), args.get('phase_ref'), args['N_solutes'], phase])
    c = ctx.call('construct.chemical', make_chemical, args, region=region)
    # the constructed chemical shows its arguments
    ctx.check(c.N_solutes == args['N_solutes'] and c.locked_state == args.get('phase')
              and (args.get('phase_ref') is None or c.phase_ref == args['phase_ref'])
              and (variant != 'user' or c.MW == args['MW']),
              f'construct.chemical|{region}|state-mismatch',
              f'N_solutes {c.N_solutes}, locked_state {c.locked_state}, phase_ref {c.phase_ref}; arguments {args}')
    st0 = chem_state(c, phase, T, P)
    o = ctx.call('pickle.chemical', rt, c, region=region)
    ctx.check(type(o) is tmo.Chemical, f'pickle.chemical|{region}|class-mismatch', type(o).__name__)
    bad = state_diff(st0, chem_state(o, phase, T, P))
    ctx.check(not bad, f'pickle.chemical|{region}|state-mismatch', lambda: '; '.join(bad[:4]))
    bad = state_diff(st0, chem_state(c, phase, T, P))
    ctx.check(not bad, f'pickle.chemical|{region}|source-modified', lambda: 'pickling changed the chemical: ' + '; '.join(bad[:4]))
    # the unpickled chemical compiles into a package next to a fresh ordinary one, like the original does
    if ch.bool('compile'):
        oname = 'Water' if c.CAS != '7732-18-5' else 'Ethanol'
        def compiled(x):
            cs = tmo.Chemicals([x, tmo.Chemical(oname, cache=False)]); cs.compile(skip_checks=True)
            return (tuple(cs.CASs), [i.N_solutes for i in cs.tuple], np.asarray(cs._heavy_solutes, float).tolist(),
                    [i.locked_state for i in cs.tuple])
        a = ctx.call('pickle.chemical.compile', compiled, rt(c), region=region)
        b = ctx.call('pickle.chemical.compile', compiled, c, region=region)     # compiles (and may write into) the original last
        ctx.check(a == b, f'pickle.chemical|{region}|compile-mismatch', f'{a} vs {b}')


# -- property packages ---------------------------------------------------------
GAMMAS = ['DortmundActivityCoefficients', 'UNIFACActivityCoefficients', 'IdealActivityCoefficients', 'NISTActivityCoefficients']
PCFS = ['MockPoyintingCorrectionFactors', 'IdealGasPoyintingCorrectionFactors']


def make_thermo(chem_args, gamma, pcf, excess, cls, default_mixture=False):
    """A fresh package over fresh chemicals, from drawn arguments only."""
    chems = tmo.Chemicals([make_chemical(a) for a in chem_args])
    if cls == 'IdealThermo.ctor':
        mixture = None
        if excess or not default_mixture:
            chems.compile()
            mixture = tmo.IdealMixture.from_chemicals(chems, include_excess_energies=excess)
        return tmo.IdealThermo(chems, mixture=mixture)
    mixture = None
    if excess:
        chems.compile()
        mixture = tmo.IdealMixture.from_chemicals(chems, include_excess_energies=True)
    th = tmo.Thermo(chems, mixture=mixture, Gamma=getattr(eq, gamma), PCF=getattr(eq, pcf))
    return th.ideal() if cls == 'IdealThermo' else th


def thermo_state(th, phase, z, T, P):
    cs = th.chemicals
    out = {'cls': type(th).__name__, 'IDs': tuple(cs.IDs), 'CASs': tuple(cs.CASs),
           'MW': np.asarray(cs.MW, float).tolist(),
           'Gamma': th.Gamma.__name__, 'Phi': th.Phi.__name__, 'PCF': th.PCF.__name__,
           'mixture': type(th.mixture).__name__, 'excess': th.mixture.include_excess_energies,
           'locked': [c.locked_state for c in cs.tuple], 'phase_ref': [c.phase_ref for c in cs.tuple],
           'N_solutes': [c.N_solutes for c in cs.tuple],
           'vle': tuple(c.ID for c in cs.vle_chemicals), 'lle': tuple(c.ID for c in cs.lle_chemicals),
           'heavy': tuple(c.ID for c in cs.heavy_chemicals), 'light': tuple(c.ID for c in cs.light_chemicals),
           'heavy_solutes': np.asarray(cs._heavy_solutes, float).tolist(),
           'ideal_is_ideal': type(th.ideal()).__name__}
    for k, c in enumerate(cs.tuple):
        for f in ('Hf', 'Tb', 'Tm', 'formula'):
            out[f'{k}.{f}'] = getattr(c, f)
    for f in ('H', 'S', 'Cn', 'V', 'mu', 'kappa'):
        try: out[f] = float(getattr(th.mixture, f)(phase, np.array(z, float), T, P))
        except Exception as e: out[f] = 'exc:' + type(e).__name__
    return out


def flash_T(th, names, z):
    """Temperature of a V=0.3 flash at 1 atm on package ``th`` (value or exception type)."""
    try:
        s = tmo.Stream(None, flow=np.array(z, float), thermo=th)
        s.vle(V=0.3, P=101325.)
        return [float(s.T), np.asarray(_Readers.dense(s), float).round(9).tolist()]
    except Exception as e:
        return 'exc:' + type(e).__name__


def prop_pickle_thermo(ch, ctx):
    rt = roundtrip(ch)
    cls = ch.choice('cls', ['Thermo', 'Thermo', 'IdealThermo', 'IdealThermo.ctor'])
    gamma = ch.choice('Gamma', GAMMAS); pcf = ch.choice('PCF', PCFS); excess = ch.bool('excess')
    phase = ch.choice('probe.phase', ['l', 'g', 's'])
    n = ch.int('n', 1, 5)
    names = ch.subset('names', DB_NAMES, min_size=n, max_size=n)
    if ch.bool('with_water') and 'Water' not in names: names[0] = 'Water'
    chem_args = [draw_chemical_args(ch, f'c{k}', names=[nm], allow_user=False) for k, nm in enumerate(names)]
    z = [v + 0.125 for v in ch.flows('z', n)]
    T = ch.float('T', 280., 450.); P = ch.float('P', 1e4, 1e6)
    default_mixture = ch.int('mixture.default', 0, 3) == 0 if (cls == 'IdealThermo.ctor' and not excess) else False
    any_locked = any(a['variant'] == 'locked' for a in chem_args)
    any_N = any(a['N_solutes'] is not None for a in chem_args)
    region = f'cls={cls},locked={int(any_locked)},N_solutes={"set" if any_N else "unset"}'
    ctx.nontriv(['pthermo', cls, gamma, pcf, excess, phase,
                 [[a['ID'], a.get('phase'), a.get('phase_ref'), a['N_solutes']] for a in chem_args]])
    try:
        th = ctx.call('construct.thermo', make_thermo, chem_args, gamma, pcf, excess, cls, default_mixture,
                      allowed=(RuntimeError,), region=region + ',mixture=' + ('default' if default_mixture else 'given'))
    except RuntimeError:
        ctx.reject('compile refused the chemicals (missing key properties, documented RuntimeError)')
    ctx.cell('p:thermo:' + type(th).__name__)
    if any_locked: ctx.cell('p:thermo:locked')
    if any_N: ctx.cell('p:thermo:N_solutes=set')
    # the package shows the arguments of its chemicals (heavy chemicals without a value get 0 by design)
    for a, c in zip(chem_args, th.chemicals.tuple):
        wantN = a['N_solutes'] if a['N_solutes'] is not None else (0 if c in th.chemicals.heavy_chemicals else None)
        ctx.check(c.N_solutes == wantN and c.locked_state == a.get('phase'), f'construct.thermo|{region}|state-mismatch',
                  f'{c.ID}: N_solutes {c.N_solutes} (argument {a["N_solutes"]}), locked_state {c.locked_state} (argument {a.get("phase")})')
    st0 = thermo_state(th, phase, z, T, P)
    o = ctx.call('pickle.thermo', rt, th, region=region)
    ctx.check(type(o) is type(th), f'pickle.thermo|{region}|class-mismatch', type(o).__name__)
    st1 = ctx.call('pickle.thermo.state', thermo_state, o, phase, z, T, P, region=region)
    bad = state_diff(st0, st1)
    ctx.check(not bad, f'pickle.thermo|{region}|state-mismatch', lambda: '; '.join(bad[:4]))
    # every chemical inside the unpickled package equals its original, field by field
    for c0, c1 in zip(th.chemicals.tuple, o.chemicals.tuple):
        bad = state_diff(chem_state(c0, phase, T, P), chem_state(c1, phase, T, P))
        ctx.check(not bad, f'pickle.thermo|{region}|chemical-mismatch', lambda: f'{c0.ID}: ' + '; '.join(bad[:4]))
    # a stream on the unpickled package behaves like one on the original
    if ch.bool('stream') and phase in 'lg':
        flow = np.array(z, float)
        def probe(pk):
            s = tmo.Stream(None, flow=flow, phase=phase, T=T, P=P, thermo=pk)
            out = []
            for f in ('H', 'S', 'F_mass'):
                try: out.append(float(getattr(s, f)))
                except Exception as e: out.append('exc:' + type(e).__name__)
            return out
        a, b = probe(th), probe(o)
        ctx.check(all(same_value(i, j) for i, j in zip(a, b)), f'pickle.thermo|{region}|stream-mismatch', f'{a} vs {b}')
        if type(th) is tmo.Thermo and phase == 'l' and not any_locked:
            g0 = np.asarray(th.Gamma(th.chemicals.tuple)(flow / flow.sum(), T), float)
            g1 = np.asarray(o.Gamma(o.chemicals.tuple)(flow / flow.sum(), T), float)
            ctx.check(np.array_equal(g0, g1, equal_nan=True), f'pickle.thermo|{region}|gamma-mismatch', f'{g0.tolist()} vs {g1.tolist()}')
    # vapour-liquid equilibrium uses the solvated species of heavy chemicals: same flash on both packages
    if ch.bool('flash') and len(th.chemicals.vle_chemicals) >= 1:
        ctx.cell('p:thermo:flash')
        a, b = flash_T(th, names, z), flash_T(o, names, z)
        ok = (a == b) if isinstance(a, str) or isinstance(b, str) else (abs(a[0] - b[0]) <= 1e-9 and a[1] == b[1])
        ctx.check(ok, f'pickle.thermo|{region}|flash-mismatch', f'{a} vs {b}')


PROPS = {
    'matrix': (prop_matrix, 10000, 150000),
    'own_view': (prop_own_view, 600, 10000),
    'proxy': (prop_proxy, 2000, 30000),
    'substream': (prop_substream, 1500, 20000),
    'link_views': (prop_link_views, 1500, 20000),
    'links': (prop_links, 1200, 12000),
    'pickle_stream': (prop_pickle_stream, 1500, 12000),
    'pickle_stream_id': (prop_pickle_stream_id, 150, 1500),
    'pickle_reaction': (prop_pickle_reaction, 1000, 10000),
    'pickle_chemical': (prop_pickle_chemical, 800, 8000),
    'pickle_thermo': (prop_pickle_thermo, 600, 5000),
}
