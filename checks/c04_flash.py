"""C04 - a vapour-liquid flash honours its specifications and the equilibrium conditions."""
from __future__ import annotations

import numpy as np
import thermosteam as tmo
from thermosteam.exceptions import InfeasibleRegion, NoEquilibrium, UndefinedPhase
from vlib import chem, runner
from vlib.runner import Violation
from scipy.optimize import brentq
from vlib.c04_refthermo import RefFlash

PROPERTY = 'C04'
RULE = ('Six sub-checks, each drawing its inputs by construction from an independent reference envelope '
        '(vlib/c04_refthermo.py: K=gamma*Psat/P with the package model objects, own successive substitution to '
        '|dlnK|<1e-12, Rachford-Rice by brentq). spec: 1-5 volatile chemicals of four packages (+- small N2/CO2 and '
        'Glucose/NaCl solute), every supported specification pair (TP,TV,TH,TS,Tx,Ty,PV,PH,PS,Px,Py), '
        'Stream or MultiStream start with an arbitrary l/g distribution; oracle: T/P echo exactly, H/S reproduced by '
        'stream.H/.S, vapour fraction met. vspec (homologous families, z>=0.02): V in (0.02,0.98) met and '
        'V_ref(T_out,P_out) equals V. boundary (families): strata liquid/two-phase/vapour built from P_bub/P_dew; '
        'phase pattern, iso-fugacity residual x*gamma*Psat/(y*P)-1, split equals reference. ideal: ideal package, '
        'water+organics, split equals Raoult/Rachford-Rice reference. scaling: feed*k gives products*k at same T/P. '
        'Non-trivial: result has two non-empty phases (boundary: any stratum). Distinct by (check, package, chemical '
        'subset, spec pair, stratum, start kind, inert pattern).')
ASSUMPTIONS = ['gas phase ideal and Poynting factor 1 (the default Phi/PCF of the packages used)',
               'families: C1-C4 alcohols {Methanol, Ethanol, 1-/2-Propanol, 1-/2-Butanol, Isobutanol}; C6-C8 '
               'alkanes+aromatics {Hexane, Heptane, Octane, Isooctane, Benzene, Toluene, Ethylbenzene, o-/m-Xylene} '
               '(largest infinite-dilution activity coefficient 1.2 resp. 2.1)',
               'T 280-450 K and P 2e4-1e6 Pa hold for the specified values by construction and are required of the solved '
               'values (a solution outside the box is counted as rejected)',
               'H/S specifications are read from thermosteam on hypothetical all-liquid / all-vapour copies, or with inert '
               'gas / counted solute from two isothermal flashes inside the P box (inputs only)',
               'T,H / T,S resolve the pressure to P_tol = 1 Pa and T,V / P,V the unknown to P_tol / T_tol: beyond the '
               'DESIGN section-4 tolerance a result is accepted when the solved unknown lies within 5 solver tolerances '
               'of an exact solution (measured by +-1 Pa flashes resp. by inverting the reference flash)',
               'property models are piecewise in T (entropy of HEOS_FIT chemicals lives on a float grid, C07-F3): a P,H / '
               'P,S value bracketed within +-5 mK at frozen flows counts as reproduced; Benzene (grid of 2 J/mol/K) is not '
               'used in S specifications; scaling of S-specified flashes is compared with rtol 1e-3 instead of 1e-6',
               'documented rejections (InfeasibleRegion, NoEquilibrium, NotImplementedError "cannot solve for pressure '
               'yet", solver RuntimeError) and arithmetic failures inside a solver (FloatingPointError, ZeroDivisionError, '
               'OverflowError) are counted as rejected: the property speaks about calculations that return',
               'pm=1 marks mixtures containing a pair whose larger infinite-dilution activity coefficient (300/400 K) '
               'exceeds e**2; env=bad marks inputs whose bubble/dew point the package solvers get wrong (both are region '
               'tags of known findings, not exclusions)']
REQUIRED_CELLS = {'quick': ['boundary:liq', 'boundary:two', 'boundary:vap', 'vspec:PV', 'vspec:TV',
                            'spec:PH', 'spec:PS', 'spec:TH', 'spec:TS', 'spec:TP', 'spec:TV', 'spec:PV',
                            'spec:Tx', 'spec:Ty', 'spec:Px', 'spec:Py', 'spec:n=1', 'ideal:two', 'scale:two-phase']
                           + [f'single:{p}:{q}' for p, q in [('TP', 'liq'), ('TP', 'vap'), ('TV', 'two'), ('PV', 'two'), ('TH', 'two'),
                                                              ('TS', 'two'), ('PH', 'two'), ('PH', 'liq'), ('PH', 'vap'), ('PS', 'two'),
                                                              ('PS', 'liq'), ('PS', 'vap')]],
                  'thorough': []}

T_MIN, T_MAX = 280.0, 450.0
P_MIN, P_MAX = 2e4, 1e6

ALC = ['Methanol', 'Ethanol', '1-Propanol', '2-Propanol', '1-Butanol', '2-Butanol', 'Isobutanol']
HC = ['Hexane', 'Heptane', 'Octane', 'Isooctane', 'Benzene', 'Toluene', 'Ethylbenzene', 'o-Xylene', 'm-Xylene']
PKG = {
    # name: (volatile names, gas-locked, heavy-locked {name: (phase, N_solutes)})
    'A': (['Water', 'Ethanol', 'Methanol', 'Propanol', 'Acetone', 'Hexane', 'Glycerol', 'AceticAcid'],
          ['N2'], {'Glucose': ('s', None)}),
    'B': (['Water', 'Ethanol', 'AceticAcid', 'Hexane', 'Toluene', '1-Butanol', 'Acetone'],
          ['CO2'], {'NaCl': ('s', 2), 'LacticAcid': ('l', 1)}),
    'alc': (ALC, [], {}),
    'hc': (HC, [], {}),
    # the same families on a package built with PCF=IdealGasPoyintingCorrectionFactors (Poynting factor exp(vl (P-Psat)/RT))
    'alcP': (ALC, [], {}),
    'hcP': (HC, [], {}),
}
_pk = {}
_ref = {}

# tolerances (DESIGN.md section 4; observed maxima are recorded as metrics)
TOL_V = 1e-4
RESOLUTION_FACTOR = 5.0     # V specification: accepted distance of the solved unknown from the exact point, in solver tolerances
P_RESOLUTION_FACTOR = 5.0   # T,H / T,S: accepted distance (in units of P_tol = 1 Pa) from an exact solution
TOL_ISO = 5e-4
TOL_REF = 1e-4
TOL_IDEAL = 1e-5
TOL_SCALE = 1e-6
TOL_SCALE_S = 1e-3      # P,S / T,S: S(T) carries ~1e-8 relative evaluation noise (float grid of the HEOS_FIT integral, C07-F3)
                        # which flips stopping decisions of the T / P iteration: observed up to 1.2e-5
# arithmetic failures inside a solver (seen: divide by zero in dew_point.gamma_iter on mixtures with a miscibility gap,
# C08-F3) mean the call did not return: the property is stated for calculations that return
REJECT = (InfeasibleRegion, NoEquilibrium, UndefinedPhase, NotImplementedError, RuntimeError,
          FloatingPointError, ZeroDivisionError, OverflowError)


def package(pid, ideal=False):
    key = (pid, ideal)
    th = _pk.get(key)
    if th is None:
        base = _pk.get((pid, False))
        if base is None:
            vol, light, heavy = PKG[pid]
            chems = [chem.chemical(n) for n in vol] + [chem.chemical(n, phase='g') for n in light]
            for n, (ph, ns) in heavy.items():
                c = tmo.Chemical(n, phase=ph)
                if ns is not None: c.N_solutes = ns
                chems.append(c)
            kwargs = {}
            if pid.endswith('P'):
                from thermosteam.equilibrium import IdealGasPoyintingCorrectionFactors
                kwargs['PCF'] = IdealGasPoyintingCorrectionFactors
            base = _pk[(pid, False)] = tmo.Thermo(tmo.Chemicals(chems), **kwargs)
            runner.register_chemicals(base.chemicals)
        th = base.ideal() if ideal else base
        _pk[key] = th
    return th


def reference(pid, names, ideal=False):
    key = (pid, tuple(names), ideal)
    r = _ref.get(key)
    if r is None:
        th = package(pid, ideal)
        r = _ref[key] = RefFlash([th.chemicals[n] for n in names], th, ideal=ideal)
    return r


# ---------------------------------------------------------------------------
# generators
# ---------------------------------------------------------------------------
def draw_volatile(ch, pid, nmin=1, nmax=5, zmin=0.0, exclude=(), n_choices=None):
    vol = [v for v in PKG[pid][0] if v not in exclude]
    order = {n: i for i, n in enumerate(vol)}
    # the single-chemical branches of the code are separate functions per specification pair: n = 1 gets double weight
    n = ch.choice('n', n_choices) if n_choices else ch.int('n', nmin, min(nmax, len(vol)))
    names = ch.subset('chems', vol, min_size=n, max_size=n)
    names = sorted(names, key=order.get)           # package order = order of the equilibrium arrays
    if zmin:
        w = np.array([ch.float(f'w{i}', 0.01, 1.0) for i in range(n)])
        z = zmin + (1.0 - zmin * n) * w / w.sum()
    else:
        w = np.array([ch.logfloat(f'w{i}', -3, 0) for i in range(n)])
        z = w / w.sum()
    F = ch.logfloat('F', -2, 3)
    return names, z, F


def draw_inerts(ch, pid):
    """Small amounts (mole ratio to the volatile total) of the package's locked chemicals."""
    _, light, heavy = PKG[pid]
    out = {}
    for n in list(light) + list(heavy):
        if ch.int(f'inert.{n}', 0, 2) == 0:
            out[n] = ch.logfloat(f'inert.{n}.ratio', -4, -1.3)
    return out


def draw_start(ch, names):
    """Initial container: Stream(l|g) or MultiStream with a per-chemical vapour share."""
    kind = ch.choice('start.kind', ['M', 'M', 'Sl', 'Sg'])
    share = None
    if kind == 'M':
        share = [ch.choice(f'start.share{i}', [0.0, 1.0, None]) for i in range(len(names))]
        share = [ch.float(f'start.u{i}', 0.0, 1.0) if s is None else s for i, s in enumerate(share)]
    return dict(kind=kind, share=share, T0=ch.float('start.T0', T_MIN, T_MAX), P0=ch.logfloat('start.P0', 4.31, 6.0))


def build(th, names, mol, inerts, start, scale=1.0):
    chems = th.chemicals
    idx = {n: chems.index(n) for n in list(names) + list(inerts)}
    Fv = float(np.sum(mol))
    if start['kind'] == 'M':
        s = tmo.MultiStream(None, phases=('g', 'l'), T=start['T0'], P=start['P0'], thermo=th)
        g = s.imol.data.rows[s.imol.get_phase_index('g')].dct
        l = s.imol.data.rows[s.imol.get_phase_index('l')].dct
        for n, m, sh in zip(names, mol, start['share']):
            v = float(m) * sh * scale
            w = float(m) * scale - v
            if v: g[idx[n]] = v
            if w: l[idx[n]] = w
        for n, r in inerts.items():
            (g if chems[n].locked_state == 'g' else l)[idx[n]] = r * Fv * scale
    else:
        flow = np.zeros(chems.size)
        for n, m in zip(names, mol): flow[idx[n]] = float(m) * scale
        for n, r in inerts.items(): flow[idx[n]] = r * Fv * scale
        s = tmo.Stream(None, flow=flow, phase=start['kind'][1], T=start['T0'], P=start['P0'], thermo=th)
    return s


def reload(s, th, names, mol, inerts, start):
    """Replace the contents of an existing (already flashed) stream object: its cached VLE solver is kept."""
    if not isinstance(s, tmo.MultiStream) or 'g' not in s.phases or 'l' not in s.phases:
        s.phases = ('g', 'l')
    chems = th.chemicals
    s.imol.data.clear()
    g = s.imol.data.rows[s.imol.get_phase_index('g')].dct
    l = s.imol.data.rows[s.imol.get_phase_index('l')].dct
    share = start['share'] or [1.0 if start['kind'] == 'Sg' else 0.0] * len(names)
    Fv = float(np.sum(mol))
    for k, m, sh in zip(names, mol, share):
        v = float(m) * sh; w = float(m) - v
        if v: g[chems.index(k)] = v
        if w: l[chems.index(k)] = w
    for k, r in inerts.items():
        (g if chems[k].locked_state == 'g' else l)[chems.index(k)] = r * Fv
    s.T = start['T0']; s.P = start['P0']
    return s


def hypothetical_HS(th, names, mol, inerts, phase, T, P):
    """H and S of the same material with every volatile chemical in one phase (read from thermosteam; input only)."""
    st = dict(kind='M', share=[1.0 if phase == 'g' else 0.0] * len(names), T0=T, P0=P)
    s = build(th, names, mol, inerts, st)
    return s.H, s.S


def snapshot(s):
    a = s.imol.data.to_array()
    ph = list(s.phases)
    return {p: np.array(a[i], float) for i, p in enumerate(ph)}


def vapour_fraction(snap):
    g = snap['g'].sum(); l = snap['l'].sum()
    return g / (g + l)


def approx_envelope_T(ref, z, P):
    """Bubble/dew temperature of the volatile part (inerts ignored); inputs only."""
    return ref.bubble_T(z, P), ref.dew_T(z, P)


def in_box_two_phase(ch, ctx, ref, z, edge=False):
    """(T, P, theta) inside the two-phase region and inside the T/P box, by construction."""
    Ta, Tb = ref.T_window(z, P_MIN, P_MAX, T_MIN, T_MAX)
    if Ta is None or Tb is None or not Ta < Tb:
        ctx.reject('no two-phase point inside the T/P box for this composition')
    T = Ta + (0.02 + 0.96 * ch.float('uT', 0.0, 1.0)) * (Tb - Ta)     # keep clear of the corners of the box
    Pb = ref.bubble_P(z, T)[0]; Pd = ref.dew_P(z, T)[0]
    lo = max(Pd, P_MIN); hi = min(Pb, P_MAX)
    if not lo < hi:
        ctx.reject('no two-phase point inside the T/P box for this composition')
    if edge:
        # close to the dew or the bubble pressure, on the two-phase side (log-uniform distance 1e-4..1e-1 of the interval)
        d = ch.logfloat('theta.edge', -4, -1)
        theta = d if ch.choice('theta.end', ['dew', 'bubble']) == 'dew' else 1.0 - d
    else:
        theta = ch.float('theta', 1e-3, 1.0 - 1e-3)
    return T, lo + theta * (hi - lo), Pb, Pd


def prelude(ch, ctx, pid, names, z, F, ideal_main, T, P):
    """Optionally use the same chemicals with the OTHER property package (ideal <-> activity coefficients, built over the
    same Chemical objects) before the checked flash, inside the case: solver objects are cached process-wide by chemical
    tuple and package models, and a flash must not depend on which package touched the chemicals first.  The runner
    clears those caches before every case, so the history has to be part of the case."""
    mode = ch.choice('prelude', ['none', 'flash', 'flash', 'points'])
    ctx.cell('prelude:' + mode)
    if mode == 'none' or len(names) < 2: return mode
    other = package(pid, ideal=not ideal_main)
    chems = [other.chemicals[k] for k in names]
    where = ch.choice('prelude.at', ['same', 'other'])
    Tq = T if where == 'same' else ch.float('prelude.T', T_MIN, T_MAX)
    Pq = P if where == 'same' else ch.logfloat('prelude.P', 4.31, 6.0)
    try:
        if mode == 'flash':
            st = dict(kind='M', share=[0.0] * len(names), T0=300.0, P0=101325.0)
            c = build(other, names, z * F, {}, st)
            c.vle(T=Tq, P=Pq)
        else:
            zz = np.asarray(z, float) / np.sum(z)
            tmo.equilibrium.BubblePoint(chems, other).solve_Py(zz, Tq)
            tmo.equilibrium.DewPoint(chems, other).solve_Px(zz, Tq)
            tmo.equilibrium.DewPoint(chems, other).solve_Tx(zz, Pq)
            tmo.equilibrium.BubblePoint(chems, other).solve_Ty(zz, Pq)
    except Exception:
        ctx.cell('prelude:raised')       # the prelude is history, not the call under test
    return mode


def set_default(ch, ctx, pid, ideal_main):
    """The global default package (tmo.settings) is drawn independently of the stream's own package: a stream built with
    thermo= must be flashed with its own models whatever the default is (same Chemical objects, other Gamma)."""
    which = ch.choice('settings', ['same', 'other'])
    ctx.cell('settings:' + which)
    tmo.settings.set_thermo(package(pid, ideal=ideal_main if which == 'same' else not ideal_main))
    return which


def call_vle(ctx, s, site, region, **kw):
    try:
        ctx.call(site, lambda: s.vle(**kw), allowed=REJECT, region=region)
    except REJECT as e:
        ctx.cell(f'rejected:{site}:{type(e).__name__}')
        ctx.reject(f'{site}: {type(e).__name__}')


def check_echo(ctx, s, kw, site, region):
    if 'T' in kw:
        ctx.check(s.T == kw['T'], f'echo.{site}|{region}|T-mismatch', lambda: f'T specified {kw["T"]!r}, stream has {s.T!r}')
    if 'P' in kw:
        ctx.check(s.P == kw['P'], f'echo.{site}|{region}|P-mismatch', lambda: f'P specified {kw["P"]!r}, stream has {s.P!r}')


def hist(ctx, name, value):
    """Record the maximum and a per-decade histogram cell of a residual."""
    ctx.metric_max(name, value)
    if value is None or value != value: return
    d = -99 if value <= 0 else (99 if value == float('inf') else int(np.floor(np.log10(value))))
    ctx.cell(f'hist:{name}:1e{min(max(d, -17), 99):+03d}')


_ginf = {}
GAMMA_INF_LIMIT = 7.4       # e**2: a symmetric binary with ln(gamma_inf) > 2 splits into two liquids


def pm_tag(pid, names, ideal):
    """1 when the activity model predicts (near-)immiscibility for some pair of the mixture: the larger
    infinite-dilution activity coefficient of the pair, at 300 or 400 K, exceeds e**2."""
    if ideal or len(names) < 2: return 0
    th = package(pid)
    worst = 0.0
    for i, a in enumerate(names):
        for b in names[i + 1:]:
            key = (pid, a, b)
            m = _ginf.get(key)
            if m is None:
                g = th.Gamma([th.chemicals[a], th.chemicals[b]])
                m = 0.0
                for T in (300.0, 400.0):
                    m = max(m, float(g(np.array([1e-6, 1 - 1e-6]), T)[0]), float(g(np.array([1 - 1e-6, 1e-6]), T)[1]))
                _ginf[key] = m
            worst = max(worst, m)
    return int(worst > GAMMA_INF_LIMIT)


def nvol_tag(n):
    return 'n=1' if n == 1 else 'n>=2'


# ---------------------------------------------------------------------------
# (a)+(b): specification echo and H/S/V reproduction on broad mixtures
# ---------------------------------------------------------------------------
S_EXCLUDE = ('Benzene',)   # S('l', T) of Benzene is not a continuous function of T (reported under C07): no S can be met
SPECS = ['TP', 'TV', 'TH', 'TS', 'PV', 'PH', 'PS', 'Tx', 'Ty', 'Px', 'Py']
import os as _os
if _os.environ.get('C04_DEV_PAIRS'):      # development knob only (changes the draws; never set in registered runs)
    SPECS = _os.environ['C04_DEV_PAIRS'].split(',')


def full_T_window(ctx, approx, z):
    """Temperatures at which the whole (approximate) two-phase pressure interval lies inside the P box."""
    try:
        lo = max(T_MIN, approx.dew_T(z, P_MIN)); hi = min(T_MAX, approx.bubble_T(z, P_MAX))
    except ValueError:
        ctx.reject('reference envelope bracket')
    if not lo < hi: ctx.reject('no temperature with the whole two-phase interval inside the P box')
    return lo, hi


def full_P_window(ctx, approx, z):
    """Pressures at which the whole (approximate) two-phase temperature interval lies inside the T box."""
    lo = max(P_MIN, approx.bubble_P(z, T_MIN)[0]); hi = min(P_MAX, approx.dew_P(z, T_MAX)[0])
    if not lo < hi: ctx.reject('no pressure with the whole two-phase interval inside the T box')
    return lo, hi


def draw_in(ch, label, lo, hi, log=False):
    u = 0.02 + 0.96 * ch.float(label, 0.0, 1.0)          # keep clear of the edges of the window
    if log: return float(np.exp(np.log(lo) + u * (np.log(hi) - np.log(lo))))
    return float(lo + u * (hi - lo))


def draw_spec_values(ch, ctx, pid, th, names, z, F, inerts, pair, approx, force=None):
    """Specification values inside the quantified box, constructed from the approximate (Raoult) envelope."""
    mol = z * F
    kw = {}
    stratum = 'two'
    if pair[1] in 'xy':
        # feed composition is constructed between x and y of the reference (lever rule feasible)
        x0 = ch.float('x0', 0.02, 0.98)
        comp = np.array([x0, 1.0 - x0])
        if pair[0] == 'T':
            lo, hi = full_T_window(ctx, approx, comp)
            T = draw_in(ch, 'uT', lo, hi); kw['T'] = T
            other = approx.bubble_P(comp, T)[1] if pair[1] == 'x' else approx.dew_P(comp, T)[1]
        else:
            lo, hi = full_P_window(ctx, approx, comp)
            P = draw_in(ch, 'uP', lo, hi, log=True); kw['P'] = P
            try:
                if pair[1] == 'x':
                    Tq = approx.bubble_T(comp, P); other = approx.bubble_P(comp, Tq)[1]
                else:
                    Tq = approx.dew_T(comp, P); other = approx.dew_P(comp, Tq)[1]
            except ValueError:
                ctx.reject('reference envelope bracket')
        if ch.int('xy.free', 0, 7) == 3:        # free feed composition: mostly a documented InfeasibleRegion
            zz0 = ch.float('z0', 1e-3, 1.0 - 1e-3); stratum = 'free'
        else:
            th_ = ch.choice('xy.theta', [0.0, 1.0, None])
            if th_ is None: th_ = ch.float('xy.theta.u', 0.0, 1.0)
            zz0 = comp[0] + th_ * (other[0] - comp[0])
        z = np.array([zz0, 1.0 - zz0]); mol = z * F
        kw[pair[1]] = [float(comp[0]), float(comp[1])]
        return kw, mol, stratum
    if pair == 'TP':
        stratum = force or ch.choice('stratum', ['two', 'two', 'liq', 'vap', 'free'])
        try: Ta, Tb = approx.T_window(z, P_MIN, P_MAX, T_MIN, T_MAX)
        except ValueError: ctx.reject('reference envelope bracket')
        if stratum == 'free' or Ta is None or Tb is None or not Ta < Tb:
            stratum = 'free'
            kw['T'] = ch.float('T', T_MIN, T_MAX); kw['P'] = ch.logfloat('P', 4.31, 6.0)
            return kw, mol, stratum
        T = draw_in(ch, 'uT', Ta, Tb); kw['T'] = T
        Pb = approx.bubble_P(z, T)[0]; Pd = approx.dew_P(z, T)[0]
        if stratum == 'two': P = Pd + ch.float('theta', 0.0, 1.0) * (Pb - Pd)
        elif stratum == 'liq': P = Pb * (1 + ch.logfloat('delta', -4, 0))
        else: P = Pd * (1 - ch.logfloat('delta', -4, -0.05))
        kw['P'] = float(min(max(P, P_MIN), P_MAX))
    elif pair[0] == 'T':
        lo, hi = full_T_window(ctx, approx, z)
        T = draw_in(ch, 'uT', lo, hi); kw['T'] = T
        if pair == 'TV':
            kw['V'] = draw_V(ch)
        else:
            Pb = approx.bubble_P(z, T)[0]; Pd = approx.dew_P(z, T)[0]
            if inerts:
                # with inert gas / counted solute the all-liquid and all-vapour limits are only reached at P -> inf / 0:
                # take the limits from two isothermal flashes inside the P box instead (thermosteam, inputs only)
                stratum = 'two-inert'
                lims = []
                for Pq in (min(P_MAX, 1.5 * Pb), max(P_MIN, 0.9 * Pd)):
                    c = build(th, names, mol, inerts, dict(kind='M', share=[0.0] * len(names), T0=T, P0=Pq))
                    try: c.vle(T=T, P=Pq)
                    except Exception: ctx.reject('limit flash failed while constructing the input')
                    lims.append((c.H, c.S))
                (Hl, Sl), (Hg, Sg) = lims
                if not (Hl < Hg and Sl < Sg): ctx.reject('degenerate H/S window')
            else:
                Hl, Sl = hypothetical_HS(th, names, mol, inerts, 'l', T, Pb)
                Hg, Sg = hypothetical_HS(th, names, mol, inerts, 'g', T, Pd)
            u = ch.float('theta', 0.02, 0.98)      # strictly between: the boundary values are documented rejections
            if pair == 'TH': kw['H'] = Hl + u * (Hg - Hl)
            else: kw['S'] = Sl + u * (Sg - Sl)
            # narrow two-phase pressure window (Raoult, volatile part): H(P), S(P) at fixed T are nearly a step
            kw['_narrow'] = bool((Pb - Pd) < 0.1 * Pb)
    else:
        lo, hi = full_P_window(ctx, approx, z)
        P = draw_in(ch, 'uP', lo, hi, log=True); kw['P'] = P
        if pair == 'PV':
            kw['V'] = draw_V(ch)
        else:
            try: Tb, Td = approx_envelope_T(approx, z, P)
            except ValueError: ctx.reject('reference envelope bracket')
            stratum = force or ch.choice('stratum', ['two', 'two', 'liq', 'vap'])
            if stratum == 'two':
                Hl, Sl = hypothetical_HS(th, names, mol, inerts, 'l', Tb, P)
                Hg, Sg = hypothetical_HS(th, names, mol, inerts, 'g', Td, P)
                u = ch.float('theta', 0.0, 1.0)
                H = Hl + u * (Hg - Hl); S = Sl + u * (Sg - Sl)
            elif stratum == 'liq':
                Tq = T_MIN + ch.float('theta', 0.0, 1.0) * (Tb - T_MIN)
                H, S = hypothetical_HS(th, names, mol, inerts, 'l', Tq, P)
            else:
                Tq = Td + ch.float('theta', 0.0, 1.0) * (T_MAX - Td)
                H, S = hypothetical_HS(th, names, mol, inerts, 'g', Tq, P)
            if pair == 'PH': kw['H'] = H
            else: kw['S'] = S
    return kw, mol, stratum


def inside_box(ctx, s, slack=0.02):
    """The solved T/P must lie in the quantified box (the envelope used for construction is approximate)."""
    if not (T_MIN - 1.0 <= s.T <= T_MAX + 1.0 and P_MIN * (1 - slack) <= s.P <= P_MAX * (1 + slack)):
        ctx.cell('solution-outside-box')
        ctx.reject('solved T/P outside the quantified box')


def draw_V(ch):
    return ch.float('V', 0.02, 0.98)


def prop_spec(ch, ctx):
    pid = ch.choice('pkg', ['A', 'B', 'alc', 'hc'])
    ideal = ch.int('ideal', 0, 4) == 0
    pair = ch.choice('pair', SPECS)
    excl = S_EXCLUDE if 'S' in pair else ()
    if pair[1] in 'xy':
        names, z, F = draw_volatile(ch, pid, 2, 2)
    else:
        names, z, F = draw_volatile(ch, pid, 1, 5, exclude=excl, n_choices=[1, 2, 3, 1, 4, 5])
    inerts = draw_inerts(ch, pid) if pair[1] not in 'xy' else {}
    spec_case(ch, ctx, pid, ideal, pair, names, z, F, inerts, None, 'spec')


SINGLE_COMBOS = [['TP', 'liq'], ['TP', 'vap'], ['TP', 'free'], ['TV', 'two'], ['PV', 'two'], ['TH', 'two'], ['TS', 'two'],
                 ['PH', 'two'], ['PH', 'liq'], ['PH', 'vap'], ['PS', 'two'], ['PS', 'liq'], ['PS', 'vap']]


def prop_single(ch, ctx):
    """Exactly one chemical takes part in the equilibrium: every specification pair has its own single-chemical routine
    (_set_*_chemical) with sub-cooled / saturated / super-heated branches.  One draw picks the (pair, branch) combination so
    that every routine and branch is reached in every run; the only optional company is a non-counted solute."""
    pid = ch.choice('pkg', ['A', 'B', 'alc', 'hc'])
    ideal = ch.int('ideal', 0, 3) == 0
    pair, stratum = ch.choice('combo', SINGLE_COMBOS)
    vol = [v for v in PKG[pid][0] if not ('S' in pair and v in S_EXCLUDE)]
    names = [ch.choice('chem', vol)]
    F = ch.logfloat('F', -2, 3)
    inerts = {}
    if pid == 'A' and ch.bool('solute'):
        inerts['Glucose'] = ch.logfloat('inert.Glucose.ratio', -4, -1.3)      # N_solutes unset: does not count
    ctx.cell(f'single:{pair}:{stratum}')
    spec_case(ch, ctx, pid, ideal, pair, names, np.array([1.0]), F, inerts, stratum, 'single')


HIST_PAIRS = ['TP', 'TV', 'PV', 'PH', 'PS', 'TH', 'TS']


def prop_reuse(ch, ctx):
    """One stream object flashed 2-3 times with its contents replaced in between (another single volatile chemical, inert gas
    or counted solute added / removed): the solver objects cached on the stream must follow the chemicals present.  The
    earlier flashes are history; the LAST flash is judged by the same echo / H / S clauses as `spec`."""
    pid = ch.choice('pkg', ['A', 'B'])
    ideal = ch.int('ideal', 0, 3) == 0
    th = package(pid, ideal)
    tmo.settings.set_thermo(th)
    s = None
    nsteps = ch.int('nprior', 1, 2)
    for step in range(nsteps):
        tag = f'h{step}.'
        pair = ch.choice(tag + 'pair', HIST_PAIRS)
        n = ch.choice(tag + 'n', [1, 1, 1, 2])
        vol = [v for v in PKG[pid][0] if not ('S' in pair and v in S_EXCLUDE)]
        names = ch.subset(tag + 'chems', vol, min_size=n, max_size=n)
        names = sorted(names, key=vol.index)
        w = np.array([ch.logfloat(tag + f'w{i}', -2, 0) for i in range(n)]); z = w / w.sum()
        F = ch.logfloat(tag + 'F', -1, 2)
        inerts = {}
        for k in list(PKG[pid][1]) + list(PKG[pid][2]):
            if ch.int(tag + 'inert.' + k, 0, 2) == 0: inerts[k] = ch.logfloat(tag + f'inert.{k}.ratio', -3, -1.3)
        approx = reference(pid, names, ideal=True)
        try:
            kw, mol, _ = draw_spec_values(ch, ctx, pid, th, names, z, F, inerts, pair, approx)
            kw.pop('_narrow', None)
        except runner.Reject:
            continue                                   # no admissible specification for this composition: skip the step
        start = dict(kind='M', share=[0.0] * n, T0=300.0, P0=101325.0)
        s = build(th, names, mol, inerts, start) if s is None else reload(s, th, names, mol, inerts, start)
        region = f'step={step},{nvol_tag(n)},inert={int(bool(inerts))}'
        ctx.cell('reuse:prior:' + pair)
        try:
            ctx.call('reuse.prior.' + pair, lambda: s.vle(**kw), allowed=REJECT, region=region)
        except REJECT:
            ctx.cell('reuse:prior-rejected')
    pair = ch.choice('pair', HIST_PAIRS)
    n = ch.choice('n', [1, 1, 1, 2])
    vol = [v for v in PKG[pid][0] if not ('S' in pair and v in S_EXCLUDE)]
    names = sorted(ch.subset('chems', vol, min_size=n, max_size=n), key=vol.index)
    w = np.array([ch.logfloat(f'w{i}', -2, 0) for i in range(n)]); z = w / w.sum()
    F = ch.logfloat('F', -1, 2)
    inerts = draw_inerts(ch, pid)
    ctx.cell('reuse:last:' + pair)
    spec_case(ch, ctx, pid, ideal, pair, names, z, F, inerts, None, 'reuse', prior=s)


def spec_case(ch, ctx, pid, ideal, pair, names, z, F, inerts, force, label, prior=None):
    start = draw_start(ch, names)
    th = package(pid, ideal)
    tmo.settings.set_thermo(th)
    n = len(names)
    # envelope used only to place the inputs: Raoult, except for x/y pairs where lever-rule feasibility needs the model
    approx = reference(pid, names, ideal=(True if pair[1] not in 'xy' else ideal))
    kw, mol, stratum = draw_spec_values(ch, ctx, pid, th, names, z, F, inerts, pair, approx, force=force)
    narrow = kw.pop('_narrow', False)
    s = build(th, names, mol, inerts, start) if prior is None else reload(prior, th, names, mol, inerts, start)
    set_default(ch, ctx, pid, ideal)
    itag = ('g' if any(th.chemicals[k].locked_state == 'g' for k in inerts) else '') + \
           ('h' if any(th.chemicals[k].locked_state != 'g' for k in inerts) else '') + \
           ('c' if any(th.chemicals[k].locked_state != 'g' and (th.chemicals[k].N_solutes or 0) for k in inerts) else '')
    # 'c': a counted non-volatile solute (N_solutes > 0) takes part in the phase-fraction balance
    region = f'{nvol_tag(n)},inert={itag or "none"},ideal={int(ideal)},pm={pm_tag(pid, names, ideal)}' + (',reused=1' if prior is not None else '')
    if narrow: region += ',narrow=1'
    site = pair
    ctx.cell('spec:' + pair); ctx.cell('spec:' + nvol_tag(n)); ctx.cell('spec:inert=' + (itag or 'none'))
    ctx.cell(f'spec:{pair}:{stratum}')
    F_mass = s.F_mass
    call_vle(ctx, s, site, region, **kw)
    check_echo(ctx, s, kw, site, region)
    inside_box(ctx, s)
    snap = snapshot(s)
    # (b) enthalpy / entropy reproduction
    for q in ('H', 'S'):
        if q not in kw: continue
        got = getattr(s, q)
        err = abs(got - kw[q])
        hist(ctx, f'{q}spec.{pair}:per-kg', err / F_mass)
        try: C = s.C
        except Exception: C = 0.0
        tol = tol_HS(F_mass, C, kw[q], s, q)
        n_eq = n + int('g' in itag) + int('c' in itag)       # species taking part in the phase-fraction balance
        if err > tol and pair[0] == 'T' and n_eq >= 2:
            # T,H / T,S: the pressure is only resolved to P_tol = 1 Pa.  Accept when the returned pressure lies within
            # (a single species has P = Psat(T) and a lever-rule split: no pressure iteration, no allowance)
            # a few P_tol of a pressure at which the specification is met (first order, measured on fresh copies).
            sens = pressure_sensitivity(ctx, th, names, mol, inerts, start, s.T, s.P, q, got)
            hist(ctx, f'{q}spec.{pair}:err/sensitivity-per-Pa', err / sens if sens else float('inf'))
            tol += P_RESOLUTION_FACTOR * sens
        elif err > tol and pair[0] == 'P' and bracketed_in_T(s, q, kw[q]):
            # property models are piecewise in T (jumps of ~1e-5 relative at correlation limits): no temperature
            # reproduces the value exactly; accept when the value is bracketed within +-5 mK at frozen flows
            ctx.cell(f'accepted:{q}spec.{pair}:bracketed-within-5mK')
            tol = err
        res = 'two' if (snap['g'].sum() > 0 and snap['l'].sum() > 0) else 'single'
        if err > tol and pair[0] == 'T' and n_eq >= 2 and n >= 2:
            # region predicate (computed only when a violation is about to be reported): how many plain successive-
            # substitution steps does the reference need at the returned T, P?  thermosteam's inner flash stops after 20
            # accelerated steps without a convergence check; where > 20 plain steps are needed its warm-started result
            # depends on the previous evaluation and H(P) / S(P) look erratic to the outer root finder.
            try:
                r = reference(pid, names, ideal=ideal).flash_TP(mol / mol.sum(), s.T, s.P)
                if r['phase'] == 'lg' and r['iters'] > 20: res += ',inner=slow'
            except Exception:
                pass
        if err > tol and pair[0] == 'T' and n_eq >= 2:
            # region predicate (failure path only): is the miss caused by the solver's iteration limit (maxiter = 20, no
            # convergence check)?  Re-run a fresh copy with the class limit raised to 200 and see whether the clause then holds.
            from thermosteam.equilibrium.vle import VLE as _VLE
            old_limit = _VLE.maxiter
            try:
                _VLE.maxiter = 200
                c = build(th, names, mol, inerts, start)
                c.vle(**kw)
                e200 = abs(getattr(c, q) - kw[q])
                if e200 <= tol or e200 <= 1e-2 * err: res += ',maxiter=short'      # met, or at least 100x closer
            except Exception:
                pass
            finally:
                _VLE.maxiter = old_limit
        ctx.check(err <= tol, f'{q}spec.{site}|{region},res={res}|mismatch',
                  lambda: f'{q} specified {kw[q]!r}, stream.{q} {got!r} (|d|/F_mass={err / F_mass:.3g} per kg, '
                          f'tol {tol / F_mass:.3g} per kg) T={s.T!r} P={s.P!r} V={vapour_fraction(snap)!r}')
    if 'V' in kw:
        # the vapour fraction of the whole stream (inert gas and solute included, as the code defines it)
        tot = snap['g'].sum() + snap['l'].sum()
        V = snap['g'].sum() / tot
        ctx.metric_max(f'Vspec.{pair}:broad', abs(V - kw['V']))
    both = snap['g'].sum() > 0 and snap['l'].sum() > 0
    if both:
        ctx.nontriv([label, pid, ideal, names, pair, stratum, start['kind'], sorted(inerts)])


def tol_HS(F_mass, C, val, s, what):
    """DESIGN section 4: 1e-6 kJ/kg * F_mass + 100*C*T_tol (+1e-9 relative)."""
    if what == 'H':
        return 1e-6 * F_mass + 100.0 * abs(C or 0.0) * 1e-6 + 1e-9 * abs(val)
    return 1e-6 * F_mass + 100.0 * abs(C or 0.0) * 1e-6 / max(s.T, 1.0) + 1e-9 * abs(val)


def bracketed_in_T(s, q, val, d=5e-3):
    c = s.copy()
    vals = []
    for T in (s.T - d, s.T, s.T + d):
        c.T = T
        vals.append(getattr(c, q))
    return min(vals) <= val <= max(vals)


def pressure_sensitivity(ctx, th, names, mol, inerts, start, T, P, q, got):
    """max |X(T, P +- 1 Pa) - X(T, P)| from two isothermal flashes of fresh copies (tolerance only, not the oracle)."""
    out = 0.0
    for dP in (-1.0, 1.0):
        c = build(th, names, mol, inerts, start)
        try: c.vle(T=T, P=P + dP)
        except Exception: return 0.0
        out = max(out, abs(getattr(c, q) - got))
    return out


# ---------------------------------------------------------------------------
# (c) vapour-fraction specification, homologous families
# ---------------------------------------------------------------------------
def prop_vspec(ch, ctx):
    pid = ch.choice('pkg', ['alc', 'hc', 'hcP', 'alcP'])
    names, z, F = draw_volatile(ch, pid, 1, 5, zmin=0.02)
    n = len(names)
    start = draw_start(ch, names)
    th = package(pid)
    tmo.settings.set_thermo(th)
    ref = reference(pid, names)
    pair = ch.choice('pair', ['PV', 'TV'])
    V = ch.float('V', 0.02, 0.98)
    u = ch.float('u', 0.0, 1.0)
    try:
        if pair == 'PV':
            # P such that the whole two-phase temperature interval lies inside [T_MIN, T_MAX]
            lo = max(P_MIN, ref.bubble_P(z, T_MIN)[0]); hi = min(P_MAX, ref.dew_P(z, T_MAX)[0])
            if not lo < hi: ctx.reject('vspec: empty pressure window')
            P = float(np.exp(np.log(lo) + u * (np.log(hi) - np.log(lo))))
            kw = dict(P=P, V=V)
        else:
            lo = max(T_MIN, ref.dew_T(z, P_MIN)); hi = min(T_MAX, ref.bubble_T(z, P_MAX))
            if not lo < hi: ctx.reject('vspec: empty temperature window')
            kw = dict(T=float(lo + u * (hi - lo)), V=V)
    except ValueError:
        ctx.reject('reference envelope bracket')
    region = nvol_tag(n)
    prelude(ch, ctx, pid, names, z, F, False, kw.get('T', 350.0), kw.get('P', 101325.0))
    s = build(th, names, z * F, {}, start)
    set_default(ch, ctx, pid, False)
    ctx.cell('vspec:' + pair); ctx.cell('vspec:' + region)
    call_vle(ctx, s, pair, region, **kw)
    check_echo(ctx, s, kw, pair, region)
    snap = snapshot(s)
    Vs = vapour_fraction(snap)
    hist(ctx, f'Vspec.{pair}:|V_stream-V|', abs(Vs - V))
    narrow = abs(Vs - V) > TOL_V and n > 1     # decided below against the solver resolution
    env = lambda: env_tag(th, names, ref, z, T=kw.get('T'), P=kw.get('P')) if n > 1 else 'ok'
    if not (abs(Vs - V) <= TOL_V or narrow):
        ctx.fail(f'Vspec.{pair}|{region},env={env()}|V-mismatch', f'V specified {V!r}, stream has {Vs!r} at T={s.T} P={s.P}')
    T, P = s.T, s.P
    if not (T_MIN - 1 <= T <= T_MAX + 1 and P_MIN * 0.99 <= P <= P_MAX * 1.01):
        ctx.fail(f'Vspec.{pair}|{region},env={env()}|out-of-window', f'solved T={T} P={P} outside the constructed window')
    if n == 1:
        Ps = float(ref.Psats(T)[0])
        ctx.metric_max(f'Vspec.{pair}:n=1:|Psat(T)/P-1|', abs(Ps / P - 1))
        ctx.check(abs(Ps / P - 1) <= 1e-6, f'Vspec.{pair}|{region}|not-saturated', lambda: f'Psat(T_out)={Ps} but P={P}')
    else:
        Vr, r = ref.V_at(z, T, P)
        if not r['converged']: ctx.reject('reference flash not converged')
        hist(ctx, f'Vspec.{pair}:|V_ref-V|', abs(Vr - V))
        if abs(Vr - V) > TOL_V:
            # narrow-boiling mixtures: V moves by more than 1e-4 within the solver's resolution of the unknown
            # (P_tol = 1 Pa, T_tol = 5e-8 K).  Locate the exact point with the reference and compare the unknown.
            if pair == 'TV':
                Pb = ref.bubble_P(z, T)[0]; Pd = ref.dew_P(z, T)[0]
                Ps = brentq(lambda q: ref.V_at(z, T, q)[0] - V, Pd * (1 + 1e-12), Pb * (1 - 1e-12), xtol=1e-6, rtol=1e-14)
                dist = abs(P - Ps) / 1.0
            else:
                Tb = ref.bubble_T(z, P); Td = ref.dew_T(z, P)
                Ts = brentq(lambda q: ref.V_at(z, q, P)[0] - V, Tb + 1e-9, Td - 1e-9, xtol=1e-11, rtol=1e-15)
                dist = abs(T - Ts) / 5e-8
            hist(ctx, f'Vspec.{pair}:distance-in-solver-tolerances', dist)
            if dist > RESOLUTION_FACTOR:
                ctx.fail(f'Vspec.{pair}|{region},env={env()}|V_ref-mismatch',
                         f'V specified {V!r}; at the returned T={T!r} P={P!r} the reference equilibrium has V={Vr!r}; '
                         f'the exact point is {dist:.3g} solver tolerances away')
            ctx.cell(f'accepted:Vspec.{pair}:within-solver-resolution')
            ctx.nontriv(['vspec', pid, names, pair, start['kind']])
            return
        with_env(lambda: check_split(ctx, snap, th, names, z * F, r, f'Vspec.{pair}', region, TOL_REF * 10), env)
    ctx.nontriv(['vspec', pid, names, pair, start['kind']])


def with_env(fn, envf):
    """Run an oracle; a violation gets the envelope tag appended to its region."""
    try:
        fn()
    except Violation as v:
        parts = v.sig.split('|')
        parts[2] += ',env=' + envf()
        raise Violation('|'.join(parts), v.msg)


def inner_tag(s, T, P):
    """'' or ',inner=unconverged' (failure path only): apply thermosteam's OWN fixed-point map once to the state its inner
    flash returned.  The map is accelerated with flx.aitken(checkconvergence=False, convergenceiter=5, maxiter=20): it may stop
    on its no-improvement rule or its iteration limit without having met K_tol = 1e-6.  A returned state that its own map
    still moves by more than 10 K_tol in ln K was not converged; a state that is a fixed point of the code's map but violates
    the oracle (wrong model in K) gets no tag."""
    try:
        from thermosteam.equilibrium import vle as _v
        o = s.vle
        z = np.asarray(o._z, float); K = np.asarray(o._K, float); V = float(o._V); n = z.size
        Ps = np.array([f(T) for f in o._bubble_point.Psats], float)
        pp = o._pcf(T, P, Ps) * Ps / P
        xV = np.concatenate([z / (1.0 + V * (K - 1.0)), [V], np.log(K)])
        g = o._gamma
        if n > 2 or o._z_light or o._z_heavy:
            new = _v.xVlogK_iter(xV, pp, T, P, z, o._z_light, o._z_heavy, g.f, g.args, o._phi, n, None, None)
        else:
            new = _v.xVlogK_iter_2n(xV, pp, T, P, z, g.f, g.args, o._phi, n, None, None)
        return ',inner=unconverged' if np.abs(new[n + 1:] - xV[n + 1:]).max() > 1e-5 else ''
    except Exception:
        return ''


def env_tag(th, names, ref, z, T=None, P=None):
    """'ok' / 'bad': do the package's own BubblePoint / DewPoint solvers (which bracket the flash) return the bubble and
    dew point of the mixture?  Judged against the reference envelope (1e-3 K, 1e-6 relative in P).  Computed only when
    a violation is about to be reported, to separate a wrong envelope (bubble/dew solver, property C08) from the flash."""
    try:
        chems = [th.chemicals[k] for k in names]
        bp = tmo.equilibrium.BubblePoint(chems, th); dp = tmo.equilibrium.DewPoint(chems, th)
        zz = np.asarray(z, float) / np.sum(z)
        if P is not None and T is None:
            ok = abs(bp.solve_Ty(zz, P)[0] - ref.bubble_T(zz, P)) <= 1e-3 and abs(dp.solve_Tx(zz, P)[0] - ref.dew_T(zz, P)) <= 1e-3
        else:
            ok = abs(bp.solve_Py(zz, T)[0] / ref.bubble_P(zz, T)[0] - 1) <= 1e-6 and abs(dp.solve_Px(zz, T)[0] / ref.dew_P(zz, T)[0] - 1) <= 1e-6
        return 'ok' if ok else 'bad'
    except Exception:
        return 'bad'


def check_split(ctx, snap, th, names, mol, r, site, region, rtol):
    idx = [th.chemicals.index(k) for k in names]
    v = snap['g'][idx]; l = snap['l'][idx]
    vr = r['V'] * r['y'] * mol.sum() if r['phase'] == 'lg' else (mol if r['phase'] == 'g' else 0 * mol)
    err = np.abs(v - vr) / mol
    ctx.metric_max(f'{site}:split-vs-ref', err.max())
    if err.max() > rtol:
        i = int(err.argmax())
        ctx.fail(f'{site}|{region}|split-mismatch',
                 f'{names[i]}: vapour flow {v[i]!r} but reference {vr[i]!r} (feed {mol[i]!r}); V_ref={r["V"]!r}')


# ---------------------------------------------------------------------------
# (d) phase boundaries and iso-fugacity at specified T and P, homologous families
# ---------------------------------------------------------------------------
def prop_boundary(ch, ctx):
    pid = ch.choice('pkg', ['alc', 'hc', 'hcP', 'alcP'])
    names, z, F = draw_volatile(ch, pid, 2, 5, zmin=0.02)
    n = len(names)
    start = draw_start(ch, names)
    th = package(pid)
    tmo.settings.set_thermo(th)
    ref = reference(pid, names)
    stratum = ch.choice('stratum', ['two', 'two', 'liq', 'vap', 'two-edge'])
    try:
        if stratum in ('two', 'two-edge'):
            T, P, Pb, Pd = in_box_two_phase(ch, ctx, ref, z, edge=stratum == 'two-edge')
        elif stratum == 'liq':
            lo = max(T_MIN, ref.bubble_T(z, P_MIN)); hi = min(T_MAX, ref.bubble_T(z, P_MAX / 1.001))
            if not lo < hi: ctx.reject('boundary: empty window')
            T = lo + ch.float('uT', 0.0, 1.0) * (hi - lo)
            Pb = ref.bubble_P(z, T)[0]; Pd = ref.dew_P(z, T)[0]
            dmax = np.log10(min(1.0, P_MAX / Pb - 1.0))
            P = Pb * (1.0 + 10 ** (-4 + ch.float('ud', 0.0, 1.0) * (dmax + 4)))
            P = min(P, P_MAX)
        else:
            lo = max(T_MIN, ref.dew_T(z, P_MIN * 1.001)); hi = min(T_MAX, ref.dew_T(z, P_MAX))
            if not lo < hi: ctx.reject('boundary: empty window')
            T = lo + ch.float('uT', 0.0, 1.0) * (hi - lo)
            Pb = ref.bubble_P(z, T)[0]; Pd = ref.dew_P(z, T)[0]
            dmax = np.log10(max(1e-4, 1.0 - P_MIN / Pd))
            P = Pd * (1.0 - 10 ** (-4 + ch.float('ud', 0.0, 1.0) * (dmax + 4)))
            P = max(P, P_MIN)
    except ValueError:
        ctx.reject('reference envelope bracket')
    T = float(T); P = float(P)
    region = f'{stratum},fam={pid}'
    ctx.cell('boundary:' + stratum)
    if pid.endswith('P'): ctx.cell('boundary:pcf-package')
    prelude(ch, ctx, pid, names, z, F, False, T, P)
    s = build(th, names, z * F, {}, start)
    set_default(ch, ctx, pid, False)
    kw = dict(T=T, P=P)
    call_vle(ctx, s, 'TP', region, **kw)
    check_echo(ctx, s, kw, 'TP', region)
    snap = snapshot(s)
    idx = [th.chemicals.index(k) for k in names]
    v = snap['g'][idx]; l = snap['l'][idx]
    mol = z * F
    gas = v.sum() > 0; liq = l.sum() > 0

    def oracle():
        if P >= Pb * (1 + 1e-6):
            ctx.check(liq and not gas, f'boundary.TP|{region}|not-all-liquid',
                      lambda: f'P={P!r} >= P_bub={Pb!r} but vapour flow {v.tolist()}')
        elif P <= Pd * (1 - 1e-6):
            ctx.check(gas and not liq, f'boundary.TP|{region}|not-all-vapour',
                      lambda: f'P={P!r} <= P_dew={Pd!r} but liquid flow {l.tolist()}')
        elif Pd * (1 + 1e-6) < P < Pb * (1 - 1e-6):
            ctx.check(gas and liq, f'boundary.TP|{region}|not-two-phase',
                      lambda: f'P_dew={Pd!r} < P={P!r} < P_bub={Pb!r} but phases g:{v.sum()!r} l:{l.sum()!r}')
            if not ((v > 0).all() and (l > 0).all()):
                i = int(np.argmin(np.minimum(v, l)))
                ctx.fail(f'isofug.TP|{region}|component-missing-from-a-phase',
                         f'{names[i]}: vapour {v[i]!r}, liquid {l[i]!r} of feed {mol[i]!r} in a two-phase result (T={T}, P={P})')
            x = l / l.sum(); y = v / v.sum()
            res = x * ref.gamma(x, T) * ref.pcf(T, P) * ref.Psats(T) / (y * P) - 1.0
            ctx.metric_max('isofug:max|f_l/f_g-1|', np.abs(res).max())
            if np.abs(res).max() > TOL_ISO:
                i = int(np.abs(res).argmax())
                ctx.fail(f'isofug.TP|{region}|mismatch', f'{names[i]}: f_l/f_g-1 = {res[i]!r} (x={x.tolist()}, y={y.tolist()}, T={T}, P={P})')
            r = ref.flash_TP(z, T, P)
            if r['converged'] and r['phase'] == 'lg':
                ctx.metric_max('boundary:|V-V_ref|', abs(vapour_fraction(snap) - r['V']))
                check_split(ctx, snap, th, names, mol, r, 'refsplit.TP', region, TOL_REF)
    with_env(oracle, lambda: env_tag(th, names, ref, z, T=T) + inner_tag(s, T, P))
    ctx.nontriv(['boundary', pid, names, stratum, start['kind'], bool(gas), bool(liq)])


# ---------------------------------------------------------------------------
# (e) ideal package against Raoult / Rachford-Rice
# ---------------------------------------------------------------------------
def prop_ideal(ch, ctx):
    pid = ch.choice('pkg', ['A', 'A', 'B', 'alc', 'hc'])
    names, z, F = draw_volatile(ch, pid, 1, 5)
    n = len(names)
    start = draw_start(ch, names)
    th = package(pid, ideal=True)
    tmo.settings.set_thermo(th)
    ref = reference(pid, names, ideal=True)
    stratum = ch.choice('stratum', ['two', 'two', 'two', 'liq', 'vap', 'free', 'two-edge'])
    if n == 1 and stratum in ('two', 'two-edge'): stratum = 'free'
    try:
        if stratum in ('two', 'two-edge'):
            T, P, Pb, Pd = in_box_two_phase(ch, ctx, ref, z, edge=stratum == 'two-edge')
        else:
            T = ch.float('T', T_MIN, T_MAX)
            Pb = ref.bubble_P(z, T)[0]; Pd = ref.dew_P(z, T)[0]
            if stratum == 'liq': P = Pb * (1 + ch.logfloat('delta', -6, 0))
            elif stratum == 'vap': P = Pd * (1 - ch.logfloat('delta', -6, -0.05))
            else: P = ch.logfloat('P', 4.31, 6.0)
            P = min(max(P, P_MIN), P_MAX)
    except ValueError:
        ctx.reject('reference envelope bracket')
    T = float(T); P = float(P)
    region = f'{nvol_tag(n)},{ "two" if Pd < P < Pb else "single"}'
    pre = prelude(ch, ctx, pid, names, z, F, True, T, P)
    region += f',pre={int(pre != "none")}'
    # how the user selects the ideal package: thermo.ideal() passed to the stream, or the documented
    # settings.set_thermo(<Thermo>, ideal=True) with the stream created on the default package
    select = ch.choice('select', ['explicit', 'settings'])
    ctx.cell('ideal:select=' + select)
    if select == 'settings':
        tmo.settings.set_thermo(package(pid, ideal=False), ideal=True)
        th_sel = tmo.settings.get_thermo()
        region += ',select=settings'
    else:
        th_sel = th
    s = build(th_sel, names, z * F, {}, start)
    set_default(ch, ctx, pid, True)
    kw = dict(T=T, P=P)
    ctx.cell('ideal:' + ('two' if Pd < P < Pb else 'single'))
    call_vle(ctx, s, 'TP', region, **kw)
    check_echo(ctx, s, kw, 'TP', region)
    snap = snapshot(s)
    mol = z * F
    idx = [th.chemicals.index(k) for k in names]
    v = snap['g'][idx]
    if n == 1:
        Ps = Pb
        if abs(P - Ps) > 1e-3 * 1.001:     # the code's own dead band around Psat (1e-3 Pa)
            want = mol if P < Ps else 0 * mol
            ctx.check(np.allclose(v, want, rtol=1e-12, atol=0), f'ideal.TP|{region}|wrong-phase',
                      lambda: f'pure {names[0]} at T={T} P={P} Psat={Ps}: vapour {v.tolist()} of {mol.tolist()}')
        return
    r = ref.flash_TP(z, T, P)
    if not r['converged']: ctx.reject('reference flash not converged')
    if abs(P / Pb - 1) < 1e-9 or abs(P / Pd - 1) < 1e-9:
        ctx.reject('on the boundary within round-off')
    vr = r['V'] * r['y'] * F if r['phase'] == 'lg' else (mol if r['phase'] == 'g' else 0 * mol)
    err = np.abs(v - vr) / mol
    ctx.metric_max('ideal:split-vs-ref', err.max())
    if err.max() > TOL_IDEAL:
        i = int(err.argmax())
        ctx.fail(f'ideal.TP|{region}|split-mismatch',
                 f'{names[i]}: vapour {v[i]!r}, Raoult/Rachford-Rice {vr[i]!r}, feed {mol[i]!r}; V_ref={r["V"]!r} '
                 f'V={vapour_fraction(snap)!r} T={T} P={P} P_bub={Pb} P_dew={Pd}')
    if r['phase'] == 'lg':
        ctx.nontriv(['ideal', pid, names, start['kind']])


# ---------------------------------------------------------------------------
# (f) scaling
# ---------------------------------------------------------------------------
def prop_scaling(ch, ctx):
    pid = ch.choice('pkg', ['A', 'B', 'alc', 'hc'])
    ideal = ch.int('ideal', 0, 4) == 0
    pair = ch.choice('pair', SPECS)
    excl = S_EXCLUDE if 'S' in pair else ()
    if pair[1] in 'xy':
        names, z, F = draw_volatile(ch, pid, 2, 2)
    else:
        names, z, F = draw_volatile(ch, pid, 1, 5, exclude=excl, n_choices=[1, 2, 3, 1, 4, 5])
    inerts = draw_inerts(ch, pid) if pair[1] not in 'xy' else {}
    start = draw_start(ch, names)
    k = ch.logfloat('k', -9, 6)        # the scaling clause does not bound k
    th = package(pid, ideal)
    tmo.settings.set_thermo(th)
    n = len(names)
    approx = reference(pid, names, ideal=(True if pair[1] not in 'xy' else ideal))
    kw, mol, stratum = draw_spec_values(ch, ctx, pid, th, names, z, F, inerts, pair, approx)
    kw.pop('_narrow', None)
    region = f'{nvol_tag(n)},inert={int(bool(inerts))},ideal={int(ideal)},pm={pm_tag(pid, names, ideal)}'
    site = 'scale.' + pair
    ctx.cell('scale:' + pair)
    s1 = build(th, names, mol, inerts, start)
    s2 = build(th, names, mol, inerts, start, scale=k)
    set_default(ch, ctx, pid, ideal)
    kw2 = dict(kw)
    for q in ('H', 'S'):
        if q in kw2: kw2[q] = kw2[q] * k
    call_vle(ctx, s1, site, region, **kw)
    call_vle(ctx, s2, site, region, **kw2)
    a = snapshot(s1); b = snapshot(s2)
    tot = (a['g'] + a['l'])
    nz = tot > 0
    worst = 0.0; wi = None; wp = None
    for p in ('g', 'l'):
        e = np.abs(b[p][nz] - k * a[p][nz]) / (k * tot[nz])
        if e.size and e.max() > worst:
            worst = float(e.max()); wi = int(np.flatnonzero(nz)[e.argmax()]); wp = p
    ctx.metric_max(f'scale.{pair}:flows', worst)
    ctx.metric_max(f'scale.{pair}:|dT|', abs(s1.T - s2.T))
    ctx.metric_max(f'scale.{pair}:|dP/P|', abs(s1.P - s2.P) / s1.P)
    tol_scale = TOL_SCALE_S if 'S' in pair else TOL_SCALE
    p_tol = (1e-4 if 'S' in pair else 1e-6) * s1.P
    if (worst > tol_scale or abs(s1.P - s2.P) > p_tol) and pair in ('TV', 'TH', 'TS') and abs(s1.P - s2.P) <= 2.0:
        # the pressure is the solved unknown, resolved to P_tol = 1 Pa: when both pressures agree within that resolution the
        # flows may differ by what 1 Pa does to the split (large for a nearly pure chemical with a trace of inert gas)
        sens = 0.0
        for dP in (-1.0, 1.0):
            c = build(th, names, mol, inerts, start)
            try: c.vle(T=s1.T, P=s1.P + dP)
            except Exception: sens = float('inf'); break
            cs = snapshot(c)
            sens = max(sens, float(np.max(np.abs(cs['g'][nz] - a['g'][nz]) / tot[nz])))
        hist(ctx, f'scale.{pair}:flows/sensitivity-per-Pa', worst / sens if sens else float('inf'))
        if worst <= P_RESOLUTION_FACTOR * sens:
            ctx.cell(f'accepted:scale.{pair}:within-P-resolution')
            tol_scale = max(tol_scale, worst); p_tol = 2.0
    if worst > tol_scale:
        ctx.fail(f'{site}|{region}|flows-not-scaled',
                 f'{th.chemicals.IDs[wi]} in {wp}: {a[wp][wi]!r}*{k!r} != {b[wp][wi]!r} (T {s1.T!r}/{s2.T!r}, P {s1.P!r}/{s2.P!r})')
    if not (100.0 < s1.T < 2000.0 and 100.0 < s2.T < 2000.0):
        # the temperature solve of a single-phase result ran away (Mixture.xsolve_T_at_SP / _HP, property C02)
        ctx.fail(f'{site}|{region}|T-diverged', f'T {s1.T!r} vs {s2.T!r} (k={k!r})')
    ctx.check(abs(s1.T - s2.T) <= (1e-2 if pair == 'PS' else 1e-6 * max(1.0, s1.T)), f'{site}|{region}|T-differs', lambda: f'T {s1.T!r} vs {s2.T!r}')
    ctx.check(abs(s1.P - s2.P) <= p_tol, f'{site}|{region}|P-differs', lambda: f'P {s1.P!r} vs {s2.P!r}')
    if a['g'].sum() > 0 and a['l'].sum() > 0:
        ctx.cell('scale:two-phase')
        ctx.nontriv(['scale', pid, ideal, names, pair, stratum, start['kind'], sorted(inerts)])


PROPS = {
    'spec': (prop_spec, 700, 26000),
    'single': (prop_single, 160, 5000),
    'reuse': (prop_reuse, 200, 6000),
    'vspec': (prop_vspec, 250, 8000),
    'boundary': (prop_boundary, 300, 12000),
    'ideal': (prop_ideal, 250, 8000),
    'scaling': (prop_scaling, 200, 6000),
}
