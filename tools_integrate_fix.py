#!/usr/bin/env python3
"""Apply a proposed repo fix as one `fix:` commit and flip its finding to "fixed".

tools_integrate_fix.py <prop> <finding-id|-> <diff-file> "<commit subject (without 'fix: ')>" ["<body>"]

Steps: git apply in /repo -> baseline tests (210 pass, the 5 known failures) -> commit -> move the finding from
findings/<prop>.json (or known_findings.json) into known_findings.json with status fixed -> its pinned replay must pass.
On any failure the working tree of /repo is restored.
"""
import json, os, subprocess, sys
ROOT = os.path.dirname(os.path.abspath(__file__))
sys.path.insert(0, ROOT)
from tools_seeded import run_tests, EXPECTED_FAIL, sh

prop, fid, diff, subject = sys.argv[1:5]
body = sys.argv[5] if len(sys.argv) > 5 else ''
diff = os.path.abspath(diff)
st = sh('git', '-C', '/repo', 'status', '--porcelain').stdout.strip()
assert not st, '/repo not clean:\n' + st
r = sh('git', '-C', '/repo', 'apply', '--whitespace=nowarn', diff)
if r.returncode != 0:
    r = sh('git', '-C', '/repo', 'apply', '--3way', '--whitespace=nowarn', diff)
assert r.returncode == 0, 'patch does not apply: ' + r.stderr
try:
    failed, summary = run_tests('/repo')
    assert failed == EXPECTED_FAIL and '210 passed' in summary, f'baseline changed: {summary} {sorted(failed ^ EXPECTED_FAIL)}'
    sh('git', '-C', '/repo', 'add', '-A')
    msg = 'fix: ' + subject + ('\n\n' + body if body else '')
    r = sh('git', '-C', '/repo', 'commit', '-q', '-m', msg)
    assert r.returncode == 0, r.stderr + r.stdout
except BaseException:
    sh('git', '-C', '/repo', 'reset', '-q', '--hard', 'HEAD')
    raise
short = sh('git', '-C', '/repo', 'rev-parse', '--short', 'HEAD').stdout.strip()
print('committed', short, summary)
for fid in ([] if fid == '-' else fid.split(',')):
    kf = os.path.join(ROOT, 'known_findings.json')
    items = json.load(open(kf))
    wf = os.path.join(ROOT, 'findings', f'{prop}.json')
    work = json.load(open(wf)) if os.path.exists(wf) else []
    entry = next((k for k in work + items if k['id'] == fid), None)
    assert entry is not None, 'finding not found: ' + fid
    work = [k for k in work if k['id'] != fid]
    items = [k for k in items if k['id'] != fid]
    what = entry['line'].split(f'property={prop} ', 1)[-1]
    entry = dict(entry, status='fixed', commit=short, line=f'fixed: property={prop} {short} {what}')
    items.append(entry)
    json.dump(items, open(kf, 'w'), indent=1)
    if os.path.exists(wf):
        json.dump(work, open(wf, 'w'), indent=1)
    if entry.get('replay'):
        r = sh(os.path.join(ROOT, 'run_check.py'), prop, '--replay', os.path.join(ROOT, entry['replay']), cwd=ROOT)
        print(fid, 'pinned replay after fix: exit', r.returncode, r.stdout.strip()[-200:], r.stderr.strip()[-300:])
